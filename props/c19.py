"""C19 - `init` always produces a configuration that bumpver itself can use."""
from campaigns.initc import Init, SPACE, DATES

PROPERTY = "C19"
LEVEL = "fault_enumeration"
EXHAUSTIVE = {"quick": False, "thorough": True}
RULE = ("INIT: the space {README.md, README.rst, setup.py} present/absent x {setup.cfg, pyproject.toml, bumpver.toml, "
        ".bumpver.toml, pycalver.toml} in {absent, empty, unrelated content with final newline, unrelated content without, "
        "existing bumpver section with its own current_version, the same with CRLF line endings} = %d layouts x simulated now in {mid-year, Dec 31 23:59:59, "
        "Jan 1 00:00:01} (thorough: enumerated completely = %d runs; quick: seeded sample). Ops: init --dry, init, show, init "
        "again (or, with an existing section: init, init --dry, show). Oracle: statement predicates on bytes, exit codes and "
        "`show` output (initial version = simulated year). distinct_nontrivial = distinct (layout, date) points."
        % (SPACE, SPACE * len(DATES)))
ASSUMPTIONS = ["'unrelated content' = other tools' sections that do not mention bumpver", "clock for init = bumpver.utils.now seam"]
COMPONENTS = {"bumpver cli init/show, config.init/default_config/write_content": "real", "files": "real scratch directory",
              "clock": "simulated (utils.now)"}
CAMPAIGNS = [Init("C19", quick=20000)]


def sanity_gate(tier, total):
    need = ["existing_section", "no_prior_config", "init_wrote_bumpver.toml", "init_wrote_setup.cfg", "init_wrote_pyproject.toml"]
    return ["probe %s never fired" % p for p in need if total["probes"].get(p, 0) == 0]
