"""C17 - BUILD numbers grow numerically and lexically forever."""
from campaigns.sweep import Chain, ReleaseJobs
from campaigns.testcmd import TestCmd
from campaigns.unquoted import Unquoted

PROPERTY = "C17"
LEVEL = "exploration"
EXHAUSTIVE = {"quick": False, "thorough": False}
RULE = ("CHAIN: chains of `bumpver test`, each step starting from the version the previous step announced. Short chains "
        "(3 steps) from start ids of 1..7 digits incl. zero-padded (thorough: all 111,110 strings of 1..5 digits; quick: 4,000 "
        "seeded), long chains (thorough 10,000 steps, quick 800) from starts just below every digit-length expansion and "
        "below the all-nines maximum, for BUILD and BLD patterns, clock advancing in some chains. RELEASEJOBS: chains of `update` "
        "invocations (committing or --no-commit) in which each release is only recorded as a VCS tag (FakeRepo) and the next job "
        "starts from the pristine checkout again. TESTCMD adds BUILD parts "
        "inside grammar patterns. distinct_nontrivial = distinct (pattern, start, step) triples of short chains + distinct "
        "expansion / maximum events."
        " UNQUOTED: a TOML config whose current_version is a bare number (1.10, 2026.1100, 25.10): every command refuses, or behaves as if it had read the text as written.")
ASSUMPTIONS = ["lexid successor re-implemented from the lexid README table", "ids of 8+ digits only via chains"]
COMPONENTS = {"bumpver cli test, v2version, lexid": "real", "clock": "simulated",
              "config (UNQUOTED)": "real loader on a TOML current_version written as a bare number"}
CAMPAIGNS = [Chain(), ReleaseJobs(), TestCmd("C17", quick=5000, thorough=100000, sv_rate=0.05),
             Unquoted("C17", quick=300, thorough=6000)]


def sanity_gate(tier, total):
    need = ["build_digit_expansion", "maximum_id_reached", "release_job_done"]
    return ["probe %s never fired" % p for p in need if total["probes"].get(p, 0) == 0]
