"""C18 - the same configuration means the same thing in every config format."""
from campaigns.siblings import Siblings
from campaigns.badconfig import BadConfig

PROPERTY = "C18"
LEVEL = "exploration"
RULE = ("SIBLINGS: one abstract configuration (version, pattern (v2 or legacy), optional messages / tag scope / hooks, "
        "commit/tag/push incl. missing keys and invalid combinations, 1..5 files x 1..4 search patterns, globs and repeated "
        "entries) is serialised into six sibling worlds: setup.cfg [bumpver], pyproject.toml [tool.bumpver], bumpver.toml, "
        ".bumpver.toml, setup.cfg [pycalver], pycalver.toml [pycalver]; INI siblings vary every accepted boolean spelling and "
        "quoted/unquoted strings, TOML siblings literal/basic strings and inline/multi-line arrays. The parsed Config (via "
        "config.init through the adapter) must agree field by field and the same history (show, update --dry, update with "
        "FakeRepo, show) must produce the same exit codes, announced versions, diffs, bytes of non-config files, VCS argv and "
        "hook env in every sibling. distinct_nontrivial = distinct (settings, op, dry, success, flags, legacy) compared."
        " BADCONFIG: a file key that lost its `=` in setup.cfg and in bumpver.toml must be accepted or refused alike.")
ASSUMPTIONS = ["only configurations expressible in both syntaxes are generated (no leading/trailing blanks, no empty strings that INI cannot hold)",
               "the implicit self-pattern legitimately mirrors each sibling's own quoting and is compared against that sibling's own line"]
COMPONENTS = {"bumpver config loader, cli show/update": "real", "VCS": "FakeRepo", "files": "six real scratch directories per run",
              "config (BADCONFIG)": "real loader on the same syntax slip in setup.cfg and bumpver.toml"}
CAMPAIGNS = [Siblings("C18", quick=2000, thorough=50000),
             BadConfig("C18", "no_delim", quick=300, thorough=6000)]


def sanity_gate(tier, total):
    need = ["config_valid", "config_invalid_everywhere"]
    return ["probe %s never fired" % p for p in need if total["probes"].get(p, 0) == 0]
