"""C08 - any sequence of updates keeps files, config and tags in agreement."""
from campaigns.reallife import RealLife, BranchLife

PROPERTY = "C08"
LEVEL = "exploration"
RULE = ("REALLIFE: real git repositories with a bare origin. Histories of 1..12 invocations: `update` with random flag sets "
        "under a non-decreasing clock, deliberately failing invocations (no-change bump, rejected --set-version, invalid --tag, "
        "contradictory VCS flags), --no-commit / --no-tag-commit / --no-push runs, --allow-dirty runs while an unrelated tracked file has unstaged work, actor events (unrelated commit, commit-all, "
        "branch switch / creation) over grammar patterns and generated layouts (all line-ending regimes, globs). After every "
        "successful update: template walker over all files, `show`, exactly one new commit containing only configured files, "
        "one tag on that commit which is the newest matching tag, strictly greater than the start version; failing "
        "invocations leave files, HEAD and tags untouched; at the end one further update must succeed (bounded progress). "
        "distinct_nontrivial = distinct (pattern parts, flags, VCS flags, off-main, syntax) of successful updates.")
ASSUMPTIONS = ["REALLIFE: default tag scope only (scopes are C09's subject); BRANCHLIFE: tag scope branch on a release + maintenance-branch history", "git only; identity, dates and configuration pinned so that hashes replay",
               "week-53 days are steered around (known finding F8)"]
COMPONENTS = {"bumpver cli update/show, vcs, rewrite, config": "real", "git": "real git 2.39 + bare origin",
              "files": "real scratch repository", "clock": "simulated (also drives GIT_*_DATE)"}
CAMPAIGNS = [RealLife("C08", quick=420, thorough=12000), BranchLife("C08", quick=120, thorough=3000)]


def sanity_gate(tier, total):
    need = ["commit_and_tag", "failing_invocation", "actor_switch_branch", "actor_unrelated_commit", "progress_probe", "pushed",
            "allow_dirty_with_unrelated_work"]
    return ["probe %s never fired" % p for p in need if total["probes"].get(p, 0) == 0]
