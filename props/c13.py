"""C13 - --dry changes nothing and shows exactly what a real run would do."""
from campaigns.dryreal import DryReal

PROPERTY = "C13"
LEVEL = "exploration"
RULE = ("DRYREAL: at every step the world (directory + FakeRepo) is forked; fork A runs `update --dry ARGS`, fork B `update "
        "ARGS` on identical snapshots (generated projects as C03/C04 with consistent line endings, v2 and legacy patterns, "
        "random flag sets and --set-version targets, VCS off or FakeRepo clean). A must leave every byte and issue no "
        "mutating VCS command; when A exits 0 its stdout is parsed by a strict hunk-count-driven unified-diff parser and "
        "applied to the pre-run files split on each file's own separator: the result must equal B's files and B must exit 0. "
        "distinct_nontrivial = distinct (pattern parts, flags, set-version kind, regimes, VCS on/off) where the dry run "
        "succeeded and the diff was applied.")
ASSUMPTIONS = ["ref.udiff is the trusted applier", "mixed line endings are outside the statement's quantifier"]
COMPONENTS = {"bumpver cli update [--dry], rewrite.diff": "real", "files": "real scratch directories (two forks)",
              "VCS": "none or FakeRepo", "clock": "simulated"}
CAMPAIGNS = [DryReal("C13", quick=10000, thorough=300000)]


def sanity_gate(tier, total):
    need = ["dry_ok_forked", "dry_reported_error"]
    return ["probe %s never fired" % p for p in need if total["probes"].get(p, 0) == 0]
