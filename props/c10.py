"""C10 - VCS steps run only as configured, in order, and stop at the first failure.

Campaign LATTICE: the documented configuration lattice (77,760 points x fetch x personality), fault free.
Campaign FAILPOS: for configurations that reach the VCS, every seam crossing failing in turn
(CalledProcessError and ENOENT), plus hook failure / spawn error.
Oracle: ref.steps-style automaton over the seam event log (see DESIGN.md 6.10)."""
import os
import datetime as dt

import runner
from sim import invoker, fakevcs

PROPERTY = "C10"
LEVEL = "fault_enumeration"
EXHAUSTIVE = {"quick": False, "thorough": True}
RULE = ("LATTICE: points of config commit/tag/push x tri-state --commit/--tag-commit/--push x pre/post hook "
        "{absent,ok,fail} x {clean, dirty-unrelated, dirty-pattern-file} x --allow-dirty x tag message {empty,set} "
        "x remote {present,absent} x --dry x fetch x {git,hg} (311,040 points; quick = seeded sample, thorough = all). "
        "FAILPOS: per VCS-reaching configuration, one faulted invocation per seam crossing k x {CalledProcessError, ENOENT} "
        "plus hook fail / EACCES. REALSTEPS: real git + real hook scripts for hook {absent,ok,fail} x tag x push x remote x --dry. "
        "distinct_nontrivial = distinct (lattice point[, fault position]) whose run reached "
        "the VCS seam or a rejection decision, i.e. where the step automaton had events or a verdict to check.")
ASSUMPTIONS = [
    "git and hg are FakeRepo models behind bumpver.vcs.sp (LATTICE, FAILPOS); REALSTEPS repeats a sample with real git 2.39 and "
    "real /bin/sh hook scripts that log an order marker and their environment; hg has no real counterpart in this sandbox",
    "hooks are FakeHook doubles behind bumpver.hooks.sp except in REALSTEPS",
    "read-only probes (rev-parse/root, branch -vv, config --get, paths, extra tag listings) are unconstrained",
    "failure of fetch / tag listing / VCS detection is outside the statement's step list: only ordering rules apply",
]
COMPONENTS = {"bumpver (cli, config, vcs, hooks, rewrite, v2*)": "real", "git": "stub (FakeRepo)",
              "hg": "stub (FakeRepo, hg command set)", "hook scripts": "stub (FakeHook)", "files": "real (scratch dir)",
              "clock": "simulated"}

DIMS = [("c_commit", 2), ("c_tag", 2), ("c_push", 2), ("f_commit", 3), ("f_tag", 3), ("f_push", 3),
        ("pre", 3), ("post", 3), ("dirty", 5), ("tagmsg", 2), ("remote", 2), ("dry", 2), ("fetch", 2),
        ("pers", 2)]
LATTICE_SIZE = 1
for _n, _s in DIMS:
    LATTICE_SIZE *= _s

TRI = [None, True, False]
HOOK = ["absent", "ok", "fail"]
DIRTY = [("clean", False), ("unrelated", False), ("unrelated", True), ("pattern", False), ("pattern", True)]
STEP_ROLES = ("status", "add", "commit", "tag", "push")
TODAY = dt.date(2021, 6, 15)


def decode(point):
    vals = {}
    for name, size in DIMS:
        vals[name] = point % size
        point //= size
    dirty, allow = DIRTY[vals["dirty"]]
    return {
        "c_commit": bool(vals["c_commit"]), "c_tag": bool(vals["c_tag"]), "c_push": bool(vals["c_push"]),
        "f_commit": TRI[vals["f_commit"]], "f_tag": TRI[vals["f_tag"]], "f_push": TRI[vals["f_push"]],
        "pre": HOOK[vals["pre"]], "post": HOOK[vals["post"]], "dirty": dirty, "allow_dirty": allow,
        "tagmsg": "set" if vals["tagmsg"] else "empty", "remote": bool(vals["remote"]), "dry": bool(vals["dry"]),
        "fetch": bool(vals["fetch"]), "pers": "git" if vals["pers"] == 0 else "hg",
    }


def extras(rng):
    return {"hook_src": rng.choice(["config", "cli"]), "tracking": rng.random() < 0.7,
            "old_tag": rng.choice([None, "1.2.0", "1.2.3", "1.3.0", "1.3.0"]), "ignore_vcs_tag": rng.random() < 0.12,
            "novcs": rng.random() < 0.06,
            "noise": rng.choice([[], [], [], ["-v"], ["--pin-increments"], ["--tag-scope", "global"], ["--tag", "final"]]),
            "syntax": rng.choice(["toml", "cfg"]), "fail_rc": rng.choice([3, 3, 1, 255, 127, -9, -15, -13]),
            "remote_name": rng.choice(["origin", "origin", "origin", "my-fork", "github.com", "up_stream"]),
            # the scripts live in a directory whose name needs quoting in a shell (the path is one program name, not a command line)
            "hook_dir": rng.choice(["", "", "", "release tools/", "ci & co/", "tools;x/", "$(hooks)/"]),
            # started from inside another release's hook (or a CI job that exports them): the variables are already set
            "inherited_env": rng.choice([None, None, None, None, {"BUMPVER_OLD_VERSION": "0.9.0", "BUMPVER_NEW_VERSION": "0.9.1"},
                                         {"BUMPVER_NEW_VERSION": "7.7.7"}, {"BUMPVER_OLD_VERSION": ""}])}


def build_world(cfg):
    """-> (dir, repo, hook_plan, argv)"""
    d = invoker.new_dir("c10")
    b = lambda v: "true" if v else "false"
    pre_line = post_line = ""
    hd = cfg.get("hook_dir", "")
    if cfg["hook_src"] == "config":
        if cfg["pre"] != "absent":
            pre_line = 'pre_commit_hook = "%spre.sh"\n' % hd
        if cfg["post"] != "absent":
            post_line = 'post_commit_hook = "%spost.sh"\n' % hd
    tagmsg = "rel {new_version}" if cfg["tagmsg"] == "set" else ""
    if cfg["syntax"] == "toml":
        cfgname = "bumpver.toml"
        text = ('[bumpver]\ncurrent_version = "1.2.3"\nversion_pattern = "MAJOR.MINOR.PATCH"\n'
                'commit_message = "bump {old_version} -> {new_version}"\ntag_message = "%s"\n%s%s'
                'commit = %s\ntag = %s\npush = %s\n\n[bumpver.file_patterns]\n'
                '"bumpver.toml" = [\'current_version = "{version}"\']\n"a.txt" = ["ver {version}"]\n'
                '"src/b.txt" = ["pep {pep440_version}"]\n') % (
                    tagmsg, pre_line, post_line, b(cfg["c_commit"]), b(cfg["c_tag"]), b(cfg["c_push"]))
    else:
        cfgname = "setup.cfg"
        text = ('[bumpver]\ncurrent_version = "1.2.3"\nversion_pattern = "MAJOR.MINOR.PATCH"\n'
                'commit_message = "bump {old_version} -> {new_version}"\ntag_message = "%s"\n%s%s'
                'commit = %s\ntag = %s\npush = %s\n\n[bumpver:file_patterns]\n'
                'setup.cfg =\n    current_version = "{version}"\na.txt =\n    ver {version}\n'
                'src/b.txt =\n    pep {pep440_version}\n') % (
                    tagmsg, pre_line.replace('"', ''), post_line.replace('"', ''),
                    "True" if cfg["c_commit"] else "False", "True" if cfg["c_tag"] else "False",
                    "True" if cfg["c_push"] else "False")
    files = {cfgname: text.encode(), "a.txt": b"title\nver 1.2.3\nend\n", "src/b.txt": b"pep 1.2.3\n",
             "other.txt": b"unrelated\n", hd + "pre.sh": b"#!/bin/sh\nexit 0\n", hd + "post.sh": b"#!/bin/sh\nexit 0\n"}
    invoker.write_tree(d, files)
    pers = cfg["pers"]
    if not cfg.get("novcs"):
        os.mkdir(os.path.join(d, ".git" if pers == "git" else ".hg"))
    repo = fakevcs.FakeRepo(pers, remote=cfg["remote"], tracking=cfg["tracking"],
                            remote_name=cfg.get("remote_name", "origin") if pers == "git" else "origin")
    repo.baseline(d)
    if cfg["old_tag"]:
        repo.tags[cfg["old_tag"]] = repo.head_commit()
    if cfg["dirty"] == "unrelated":
        repo.status = [("M " if pers == "git" else "M", "other.txt")]
    elif cfg["dirty"] == "pattern":
        repo.status = [("M " if pers == "git" else "M", "a.txt")]
    fail = "fail:%d" % cfg.get("fail_rc", 3)     # how a failing hook ends: exit status, or killed by a signal (negative)
    plan = {"pre.sh": {"ok": "ok", "fail": fail, "absent": "ok", "eacces": "eacces"}[cfg["pre"]],
            "post.sh": {"ok": "ok", "fail": fail, "absent": "ok", "eacces": "eacces"}[cfg["post"]]}
    argv = ["update", "--patch"]
    for flag, val in (("commit", cfg["f_commit"]), ("tag-commit", cfg["f_tag"]), ("push", cfg["f_push"])):
        if val is True:
            argv.append("--" + flag)
        elif val is False:
            argv.append("--no-" + flag)
    if cfg["hook_src"] == "cli":
        if cfg["pre"] != "absent":
            argv += ["--pre-commit-hook", hd + "pre.sh"]
        if cfg["post"] != "absent":
            argv += ["--post-commit-hook", hd + "post.sh"]
    if cfg["allow_dirty"]:
        argv.append("--allow-dirty")
    if cfg["dry"]:
        argv.append("--dry")
    if not cfg["fetch"]:
        argv.append("--no-fetch")
    if cfg["ignore_vcs_tag"]:
        argv.append("--ignore-vcs-tag")
    argv += list(cfg.get("noise", []))     # flags that have nothing to do with the VCS steps
    return d, repo, plan, argv, cfgname


def remote_known(cfg):
    """Is there a remote bumpver can know of?  The upstream of the current branch, or else a remote called origin."""
    if not cfg["remote"]:
        return False
    if cfg["pers"] != "git":
        return True
    return bool(cfg["tracking"]) or cfg.get("remote_name", "origin") == "origin"


def expectation(cfg):
    """What the statement prescribes for a fault-free run of this configuration."""
    exp = {"reject": None}
    if (cfg["c_tag"] or cfg["c_push"]) and not cfg["c_commit"]:
        exp["reject"] = "invalid_config"
        return exp
    f_commit, f_tag, f_push = cfg["f_commit"], cfg["f_tag"], cfg["f_push"]
    eff_commit = cfg["c_commit"] if f_commit is None else f_commit
    if not eff_commit and (f_tag is True or f_push is True):
        exp["reject"] = "contradictory_flags"
        return exp
    eff_tag = (cfg["c_tag"] if f_tag is None else f_tag) and eff_commit
    eff_push = (cfg["c_push"] if f_push is None else f_push) and eff_commit
    exp.update({"commit": eff_commit, "tag": eff_tag, "push": eff_push,
                "pre": cfg["pre"] != "absent" and eff_commit, "post": cfg["post"] != "absent" and eff_commit})
    return exp


def analyse(cfg, exp, res, ctx, fault=None, cfgname="bumpver.toml", repo=None):
    """The step automaton.  Reports violations on ctx."""
    facts0 = {"pers": cfg["pers"], "dry": cfg["dry"], "fault": fault.to_json() if fault else None}
    key = {k: cfg[k] for k in sorted(cfg)}

    def bad(kind, detail, prop="C10", **more):
        facts = dict(facts0)
        facts.update(more)
        ctx.violation(prop, kind, facts, "%s | cfg=%s argv=%s exit=%s events=%s" % (
            detail, key, res.argv, res.exit_code,
            [(e.get("role") or e["kind"] + ":" + e.get("path", ""), e.get("rc")) for e in res.events]))

    events = res.events
    before = invoker.digest_snapshot(res.before)
    after = invoker.digest_snapshot(res.after)
    steps = [e for e in events if e["kind"] == "hook" or e["role"] in STEP_ROLES or e["role"] == "fetch"]
    mutating = [e for e in events if e["kind"] == "vcs" and e["role"] in fakevcs.MUTATING]
    hooks = [e for e in events if e["kind"] == "hook"]
    fetches = [e for e in events if e["kind"] == "vcs" and e["role"] == "fetch"]
    unknown = [e for e in events if e["kind"] == "vcs" and e["role"] == "unknown"]
    if unknown:
        ctx.count("unknown_vcs_commands", len(unknown))

    if fetches and not (cfg["fetch"] and remote_known(cfg)):
        bad("fetch_when_disabled", "a fetch/pull was issued although %s" % (
            "--no-fetch was given" if not cfg["fetch"] else "no remote exists"))

    if cfg.get("novcs") and not exp["reject"]:
        # no repository at all: nothing can be committed, tagged or pushed and no hook runs; the files are still bumped
        if [e for e in events if e["kind"] == "hook" or e["role"] in STEP_ROLES or e["role"] == "fetch"]:
            bad("step_without_enable", "VCS steps or hooks ran although the project is not under version control")
        if fault is None and res.exit_code != 0:
            bad("exit_code", "update in a project without VCS exited %s" % res.exit_code)
        if fault is None and not cfg["dry"] and before == after:
            bad("missing_step", "files were not rewritten (project without VCS)")
        if cfg["dry"] and before != after:
            bad("dry_mutation", "--dry changed files")
        return

    if exp["reject"]:
        if res.exit_code == 0:
            bad("contradiction_not_rejected", "%s must be rejected but exit code is 0" % exp["reject"])
        if mutating or hooks or [e for e in events if e["kind"] == "vcs" and e["role"] in ("status", "fetch")]:
            bad("contradiction_not_rejected", "%s: something happened before the rejection" % exp["reject"])
        if before != after:
            bad("contradiction_not_rejected", "%s: files changed" % exp["reject"])
        return

    if cfg["dry"]:
        if mutating:
            bad("dry_mutation", "--dry issued a mutating VCS command")
        if hooks:
            bad("dry_mutation", "--dry ran a hook")
        if before != after:
            bad("dry_mutation", "--dry changed files")
        if fault is None and res.exit_code != 0:
            bad("exit_code", "fault-free --dry run of a valid configuration exited %s" % res.exit_code)
        return

    old_v = res.log_value("Old Version: ")
    new_v = res.log_value("New Version: ")

    # enablement
    for e in mutating:
        role = e["role"]
        if role in ("add", "commit") and not exp["commit"]:
            bad("step_without_enable", "%s issued although commit is off" % role, role=role)
        if role == "tag" and not exp["tag"]:
            bad("step_without_enable", "tag created although tagging is off (or commit is off)", role=role)
        if role == "push" and not (exp["push"] and remote_known(cfg)):
            bad("step_without_enable", "push issued although push is off / no remote", role=role)
    for e in hooks:
        which = "pre" if e["path"].endswith("pre.sh") else "post"
        if not exp[which]:
            bad("step_without_enable", "%s-commit hook ran although not configured or commit off" % which, role=which)
        if e["old"] != old_v or e["new"] != new_v:
            bad("hook_env", "hook env old/new = %r/%r but announced %r/%r" % (e["old"], e["new"], old_v, new_v))

    # order: phase numbers must be non-decreasing
    def phase(e):
        if e["kind"] == "hook":
            return 3 if e["path"].endswith("pre.sh") else 6
        return {"fetch": 0, "status": 1, "add": 4, "commit": 5, "tag": 7, "push": 8}[e["role"]]

    last = -1
    seen = {}
    for e in steps:
        p = phase(e)
        if p < last:
            bad("step_order", "step %s (phase %d) after phase %d" % (e.get("role") or e["path"], p, last))
            break
        last = p
        seen.setdefault(p, []).append(e)
    for p in (3, 5, 6, 7, 8):
        if len(seen.get(p, [])) > 1:
            bad("step_order", "phase %d ran %d times" % (p, len(seen[p])))

    def ok(p):
        return bool(seen.get(p)) and all(e.get("rc") == 0 for e in seen[p])

    # every step only if every earlier enabled step succeeded
    prereq = []
    if exp["commit"]:
        chain = [(1, True), (3, exp["pre"]), (4, True), (5, True), (6, exp["post"]), (7, exp["tag"]),
                 (8, exp["push"] and remote_known(cfg))]
        for i, (p, enabled) in enumerate(chain):
            if seen.get(p) and p >= 3:
                for q, q_enabled in chain[:i]:
                    if q_enabled and not ok(q):
                        bad("step_after_failure", "phase %d ran although earlier phase %d was missing or failed" % (p, q),
                            role=str(p))
                        break

    # directory timing
    for e in events:
        if e["kind"] == "vcs" and e["role"] in ("fetch", "status", "ls_tags", "ls_tags_branch") and e["dir"] != before:
            if not any(x["kind"] == "hook" or x["role"] in ("add", "commit") for x in events[:events.index(e)]):
                bad("dir_changed_early", "files already changed when %s ran" % e["role"])
                break
    for e in steps:
        if phase(e) >= 3 and e["dir"] != after:
            bad("dir_changed_late", "files changed after step %s ran" % (e.get("role") or e["path"]))
            break

    dirty_abort = exp["commit"] and cfg["dirty"] != "clean" and not (cfg["allow_dirty"] and cfg["dirty"] == "unrelated")
    if fault is None:
        if dirty_abort:
            prop = "C11" if cfg["allow_dirty"] else "C10"
            if res.exit_code == 0 or before != after or mutating or hooks:
                bad("dirty_not_aborted", "dirty tree (%s, allow_dirty=%s) did not end the run right after the dirty check"
                    % (cfg["dirty"], cfg["allow_dirty"]), prop=prop)
            return
        hook_fail = (exp["pre"] and cfg["pre"] == "fail") or (exp["post"] and cfg["post"] == "fail")
        want_exit0 = not hook_fail
        if want_exit0 and res.exit_code != 0:
            bad("exit_code", "fault-free run of a valid configuration exited %s (exc=%s)" % (res.exit_code, res.exc))
        if not want_exit0 and res.exit_code == 0:
            bad("exit_code", "a failing hook did not make the run fail")
        if before == after:
            bad("missing_step", "files were not rewritten")
        if exp["commit"]:
            want = [(1, True, "dirty check"), (3, exp["pre"], "pre-commit hook")]
            if not (exp["pre"] and cfg["pre"] == "fail"):
                want += [(4, True, "stage"), (5, True, "commit"), (6, exp["post"], "post-commit hook")]
                if not (exp["post"] and cfg["post"] == "fail"):
                    want += [(7, exp["tag"], "tag"), (8, exp["push"] and remote_known(cfg), "push")]
            for p, enabled, name in want:
                if enabled and not seen.get(p):
                    bad("missing_step", "enabled step '%s' did not run" % name, role=name)
            if seen.get(4):
                staged = sorted(set(p for e in seen[4] for p in e["info"].get("paths", [])))
                if staged != sorted([cfgname, "a.txt", "src/b.txt"]):
                    bad("missing_step", "staged paths %r are not the configured files" % (staged,), role="stage-set")
            if ok(8) and exp["tag"] and repo is not None and new_v and new_v not in repo.remote_tags:
                bad("missing_step", "tag and push are enabled and both steps ran, yet the remote did not receive the tag %r "
                    "(push %s; the tag is %s)" % (new_v, [e["argv"] for e in seen[8]],
                                                   "lightweight" if cfg["tagmsg"] == "empty" else "annotated"), role="push-tag")
            if cfg["pre"] == "fail" and exp["pre"] and (seen.get(4) or seen.get(5)):
                bad("step_after_failure", "commit went ahead after the pre-commit hook failed", role="5")
        return

    # ---- faulted runs
    fe = [e for e in events if e.get("fault")]
    if not fe:
        return  # the fault position was not reached (run ended earlier); nothing to check beyond the above
    fe = fe[0]
    idx = events.index(fe)
    later = events[idx + 1:]
    if fe["role"] in STEP_ROLES:
        if res.exit_code == 0:
            bad("failure_ignored", "step %s failed (injected) but exit code is 0" % fe["role"], role=fe["role"])
        if [e for e in later if e["kind"] == "hook" or e["role"] in STEP_ROLES]:
            bad("step_after_failure", "steps ran after %s failed: %s" % (
                fe["role"], [e.get("role") or e["path"] for e in later]), role=fe["role"])
        if fe["dir"] != after:
            bad("step_after_failure", "files changed after %s failed" % fe["role"], role=fe["role"])
    # faults on probes / fetch / tag listing: only the ordering and enablement rules above apply


class Lattice:
    name = "LATTICE"

    def total(self, tier):
        return 16000 if tier == "quick" else LATTICE_SIZE

    def deadline(self, tier):
        return 150 if tier == "quick" else 1500

    def gen(self, seed, index, tier):
        rng = runner.rng_for(seed, self.name, index)
        if tier == "thorough":
            point = index
        else:
            point = rng.randrange(LATTICE_SIZE)
        cfg = decode(point)
        cfg.update(extras(rng))
        return {"point": point, "cfg": cfg, "ops": [{"op": "update"}]}

    def run(self, case, ctx):
        cfg = case["cfg"]
        exp = expectation(cfg)
        d, repo, plan, argv, cfgname = build_world(cfg)
        res = invoker.invoke(d, argv, TODAY, fakevcs.VcsShim(repo), fakevcs.HookShim(plan), environ=cfg.get("inherited_env"))
        ctx.invocations += 1
        roles = [(e.get("role") or "hook:" + e["path"], e.get("rc")) for e in res.events]
        ctx.event("update", argv, res.exit_code, roles, invoker.digest_snapshot(res.after), repo.digest())
        analyse(cfg, exp, res, ctx, None, cfgname, repo)
        if cfg.get("inherited_env") and any(e["kind"] == "hook" for e in res.events):
            ctx.probe("hook_with_inherited_version_variables")
        ctx.state((case["point"] // 4,))
        ctx.transition((tuple(r for r, _ in roles if not r.startswith("probe")), res.exit_code))
        if exp["reject"] or any(e["kind"] == "hook" or e["role"] in STEP_ROLES for e in res.events) or cfg["dry"]:
            ctx.nontriv((case["point"],))
        if cfg.get("novcs"):
            ctx.probe("project_without_vcs")
        if exp["reject"]:
            ctx.probe("rejected_" + exp["reject"])
        if cfg["dry"]:
            ctx.probe("dry")
        if any(e["kind"] == "hook" and e["rc"] != 0 for e in res.events):
            ctx.probe("hook_failed")
        if any(e["kind"] == "vcs" and e["role"] == "push" for e in res.events):
            ctx.probe("pushed")
        if any(e["kind"] == "vcs" and e["role"] == "tag" for e in res.events):
            ctx.probe("tagged")
        if res.exit_code != 0 and cfg["dirty"] != "clean" and not exp["reject"]:
            ctx.probe("dirty_abort")
        if ctx.sample is None:
            ctx.sample = {"campaign": self.name, "argv": argv, "config": {k: cfg[k] for k in sorted(cfg)},
                          "exit": res.exit_code, "events": roles}


def reaches_vcs(cfg):
    exp = expectation(cfg)
    if exp["reject"] or cfg["dry"] or not exp["commit"] or cfg.get("novcs"):
        return False
    if cfg["dirty"] == "pattern" or (cfg["dirty"] == "unrelated" and not cfg["allow_dirty"]):
        return False
    return True


class FailPos:
    name = "FAILPOS"

    def total(self, tier):
        return 480 if tier == "quick" else 12000

    def deadline(self, tier):
        return 150 if tier == "quick" else 1500

    def gen(self, seed, index, tier):
        rng = runner.rng_for(seed, self.name, index)
        while True:
            point = rng.randrange(LATTICE_SIZE)
            cfg = decode(point)
            if reaches_vcs(cfg):
                break
        cfg.update(extras(rng))
        return {"point": point, "cfg": cfg, "faults": "all", "ops": [{"op": "update"}]}

    def shrink(self, case):
        return []

    def run(self, case, ctx):
        cfg = case["cfg"]
        exp = expectation(cfg)
        d, repo, plan, argv, cfgname = build_world(cfg)
        res0 = invoker.invoke(d, argv, TODAY, fakevcs.VcsShim(repo), fakevcs.HookShim(plan), environ=cfg.get("inherited_env"))
        ctx.invocations += 1
        K = sum(1 for e in res0.events if e["kind"] == "vcs")
        analyse(cfg, exp, res0, ctx, None, cfgname)
        ctx.event("base", argv, res0.exit_code, K)
        plans = []
        if case["faults"] == "all":
            for k in range(K):
                plans.append({"kind": "fail_at", "k": k, "rc": 128})
                plans.append({"kind": "fail_at", "k": k, "rc": 1, "realistic": True})
                plans.append({"kind": "enoent_at", "k": k})
            plans.append({"kind": "missing_binary"})
            for role in sorted(set(e["role"] for e in res0.events if e["kind"] == "vcs" and e["role"] in fakevcs.MUTATING)):
                # the step fails however often it is tried, with the words git / hg use for a repository lock
                plans.append({"kind": "fail_role_all", "role": role, "rc": 128, "realistic": "lock"})
            for which in ("pre", "post"):
                if exp[which]:
                    plans.append({"kind": "hook", "which": which, "how": "fail"})
                    plans.append({"kind": "hook", "which": which, "how": "eacces"})
        else:
            plans = case["faults"]
        for fp in plans:
            cfg2 = dict(cfg)
            fault = None
            if fp["kind"] == "hook":
                cfg2[fp["which"]] = fp["how"]
            else:
                fault = fakevcs.Fault.from_json(fp)
            d, repo, plan, argv, cfgname = build_world(cfg2)
            res = invoker.invoke(d, argv, TODAY, fakevcs.VcsShim(repo, fault), fakevcs.HookShim(plan), environ=cfg.get("inherited_env"))
            ctx.invocations += 1
            roles = [(e.get("role") or "hook:" + e["path"], e.get("rc")) for e in res.events]
            ctx.event("fault", fp, res.exit_code, roles, invoker.digest_snapshot(res.after), repo.digest())
            if fp["kind"] == "hook":
                ctx.fault("hook_" + fp["how"])
                if fp["how"] == "eacces":
                    # spawn error: behaves like a failed hook
                    cfg3 = dict(cfg2)
                    cfg3[fp["which"]] = "fail"
                    analyse(cfg3, expectation(cfg3), res, ctx, None, cfgname)
                else:
                    analyse(cfg2, exp, res, ctx, None, cfgname)
                ctx.nontriv((case["point"], fp["which"], fp["how"]))
                continue
            fired = [e for e in res.events if e.get("fault")]
            if fired:
                ctx.fault("vcs_%s%s_%s" % (fp["kind"], "_realistic" if fp.get("realistic") else "", fired[0]["role"]), len(fired))
                ctx.nontriv((case["point"], fp["kind"], fp.get("k")))
                ctx.transition((fired[0]["role"], fp["kind"], res.exit_code))
            before = len(ctx.violations)
            analyse(cfg2, exp, res, ctx, fault, cfgname)
            for v in ctx.violations[before:]:
                v["facts"]["fault_plan"] = fp
        if ctx.sample is None:
            ctx.sample = {"campaign": self.name, "argv": argv, "config": {k: cfg[k] for k in sorted(cfg)},
                          "crossings": K, "fault_plans": len(plans)}

    def shrink(self, case):  # noqa: F811
        """Narrow 'all faults' down to single fault plans."""
        if case.get("faults") == "all":
            cfg = case["cfg"]
            exp = expectation(cfg)
            cands = []
            for k in range(40):
                cands.append([{"kind": "fail_at", "k": k, "rc": 128}])
                cands.append([{"kind": "fail_at", "k": k, "rc": 1, "realistic": True}])
                cands.append([{"kind": "enoent_at", "k": k}])
            cands.append([{"kind": "missing_binary"}])
            for which in ("pre", "post"):
                if exp.get(which):
                    cands.append([{"kind": "hook", "which": which, "how": "fail"}])
                    cands.append([{"kind": "hook", "which": which, "how": "eacces"}])
            for c in cands:
                cand = dict(case)
                cand["faults"] = c
                yield cand


CAMPAIGNS = [Lattice(), FailPos()]


def sanity_gate(tier, total):
    problems = []
    for probe in ("rejected_invalid_config", "rejected_contradictory_flags", "dry", "hook_failed", "pushed", "tagged",
                  "dirty_abort"):
        if total["probes"].get(probe, 0) == 0:
            problems.append("probe %s never fired" % probe)
    if not any(k.startswith("vcs_fail_at") for k in total["faults"]):
        problems.append("no injected VCS failure fired")
    return problems


class RealSteps:
    """Real git + real /bin/sh hook scripts: fidelity leg for the FakeRepo/FakeHook results (order marker + env)."""
    name = "REALSTEPS"

    def total(self, tier):
        return 160 if tier == "quick" else 4000

    def deadline(self, tier):
        return 170 if tier == "quick" else 1500

    def gen(self, seed, index, tier):
        rng = runner.rng_for(seed, self.name, index)
        return {"pre": rng.choice(["absent", "ok", "ok", "fail"]), "post": rng.choice(["absent", "ok", "ok", "fail"]),
                "tag": rng.random() < 0.8, "push": rng.random() < 0.5, "remote": rng.random() < 0.7,
                "hook_src": rng.choice(["config", "cli"]), "dry": rng.random() < 0.15, "ops": [{"op": "update"}],
                "inherited_env": rng.choice([None, None, {"BUMPVER_OLD_VERSION": "0.9.0", "BUMPVER_NEW_VERSION": "0.9.1"}]),
                # a failing hook either exits non-zero or is killed (CI cancel, OOM killer)
                "fail_how": rng.choice(["exit 7", "exit 7", "exit 255", "kill -KILL $$", "kill -TERM $$"]),
                "tagmsg_empty": rng.random() < 0.4,     # tag_message = "" (documented): a lightweight tag
                "hook_dir": rng.choice(["", "", "release tools/", "ci & co/"])}

    def run(self, case, ctx):
        from sim import realgit
        import stat
        d = invoker.new_dir("rs")
        log = d + ".hooks.log"
        hook_lines = ""
        argv = ["update", "--patch"]
        for which in ("pre", "post"):
            if case[which] == "absent":
                continue
            ending = "exit 0" if case[which] == "ok" else case.get("fail_how", "exit 7")
            script = ("#!/bin/sh\necho \"%s $BUMPVER_OLD_VERSION $BUMPVER_NEW_VERSION $(git rev-parse HEAD) "
                      "$(git tag --list | wc -l) $(git status --porcelain | wc -l)\" >> '%s'\n%s\n"
                      % (which, log, ending))
            hd = case.get("hook_dir", "")
            path = os.path.join(d, hd + which + ".sh")
            os.makedirs(os.path.dirname(path), exist_ok=True)
            with open(path, "w") as fobj:
                fobj.write(script)
            os.chmod(path, os.stat(path).st_mode | stat.S_IXUSR)
            if hd:
                ctx.probe("hook_path_needs_shell_quoting")
            if case["hook_src"] == "config":
                hook_lines += '%s_commit_hook = "%s%s.sh"\n' % (which, hd, which)
            else:
                argv += ["--%s-commit-hook" % which, hd + which + ".sh"]
        if case.get("tagmsg_empty"):
            hook_lines += 'tag_message = ""\n'
        cfg = ('[bumpver]\ncurrent_version = "1.2.3"\nversion_pattern = "MAJOR.MINOR.PATCH"\n%scommit = true\ntag = %s\npush = %s\n\n'
               '[bumpver.file_patterns]\n"bumpver.toml" = [\'current_version = "{version}"\']\n"a.txt" = ["ver {version}"]\n'
               % (hook_lines, "true" if case["tag"] else "false", "true" if case["push"] else "false"))
        invoker.write_tree(d, {"bumpver.toml": cfg.encode(), "a.txt": b"ver 1.2.3\n"})
        if case["dry"]:
            argv.append("--dry")
        rg = realgit.RealGit(d, TODAY, remote=case["remote"])
        rg.init()
        head0 = rg.head()
        res = invoker.invoke(d, argv, TODAY, fakevcs.VcsShim(None, forward_env=rg.env), realgit.PassthroughHooks(),
                             environ=case.get("inherited_env"))
        ctx.invocations += 1
        lines = []
        if os.path.exists(log):
            with open(log) as fobj:
                lines = [ln.split() for ln in fobj.read().splitlines()]
            os.unlink(log)
        head1 = rg.head()
        tags = rg.tags()
        ctx.event(argv, res.exit_code, [ln[:3] for ln in lines], head1 != head0, tags)
        key = (case["pre"], case["post"], case["tag"], case["push"], case["remote"], case["dry"], case["hook_src"])
        ctx.nontriv(key)
        ctx.probe("real_hook_ran", len(lines))
        ctx.sample = {"campaign": self.name, "argv": argv, "hooks_log": lines, "exit": res.exit_code, "tags": tags}
        facts = {"real": True}

        def bad(kind, msg):
            ctx.violation("C10", kind, dict(facts), "%s | case=%s argv=%s exit=%s hook log=%s tags=%s" % (
                msg, case, argv, res.exit_code, lines, tags))

        if case["dry"]:
            if lines or head1 != head0 or tags or res.changed:
                bad("dry_mutation", "--dry ran a hook or changed the repository / files")
            return
        want = []
        if case["pre"] != "absent":
            want.append("pre")
        if case["pre"] != "fail" and case["post"] != "absent":
            want.append("post")
        if [ln[0] for ln in lines] != want:
            bad("step_order", "hooks that ran: %s, expected %s" % ([ln[0] for ln in lines], want))
            return
        for ln in lines:
            if ln[1:3] != ["1.2.3", "1.2.4"]:
                bad("hook_env", "hook %s saw old/new %s" % (ln[0], ln[1:3]))
            if ln[0] == "pre" and (ln[3] != head0 or ln[5] == "0"):
                bad("step_order", "pre-commit hook must run after the rewrite and before the commit (HEAD %s, dirty entries %s)" % (ln[3], ln[5]))
            if ln[0] == "post" and (ln[3] == head0 or ln[4] != "0"):
                bad("step_order", "post-commit hook must run after the commit and before the tag (HEAD moved: %s, tags seen %s)" % (
                    ln[3] != head0, ln[4]))
        failed = case["pre"] == "fail" or case["post"] == "fail"
        if failed != (res.exit_code != 0):
            bad("exit_code", "exit code %s with failing hook = %s" % (res.exit_code, failed))
        if case["pre"] == "fail" and head1 != head0:
            bad("step_after_failure", "commit made although the pre-commit hook failed")
        if failed and tags:
            bad("step_after_failure", "tag created although a hook failed")
        if not failed:
            if head1 == head0:
                bad("missing_step", "no commit")
            if case["tag"] != (tags == ["1.2.4"]):
                bad("missing_step" if case["tag"] else "step_without_enable", "tags %s with tag=%s" % (tags, case["tag"]))
            if case["remote"]:
                remote_head = rg.git("ls-remote", "origin", "refs/heads/main").split("\t")[0]
                pushed = remote_head == head1
                if pushed != bool(case["push"]):
                    bad("missing_step" if case["push"] else "step_without_enable", "pushed=%s with push=%s" % (pushed, case["push"]))
                remote_tags = [ln.split("refs/tags/")[-1] for ln in rg.git("ls-remote", "--tags", "origin").splitlines()
                               if "refs/tags/" in ln and not ln.endswith("^{}")]
                if case["tag"] and case["push"] and "1.2.4" not in remote_tags:
                    bad("missing_step", "tag and push enabled, but the %s tag 1.2.4 did not reach the remote (remote tags %s)" % (
                        "lightweight" if case.get("tagmsg_empty") else "annotated", remote_tags))
                if not (case["tag"] and case["push"]) and remote_tags:
                    bad("step_without_enable", "remote received tags %s with tag=%s push=%s" % (remote_tags, case["tag"], case["push"]))


CAMPAIGNS.append(RealSteps())
