"""C06 - a failed update leaves the project untouched."""
from campaigns.faultpos import FaultPos
from campaigns.dryreal import DryReal

PROPERTY = "C06"
LEVEL = "fault_enumeration"
EXHAUSTIVE = {"quick": False, "thorough": False}
RULE = ("FAULTPOS: per seeded project (1..4 content files + config file, 1..3 patterns each, v2 and legacy, commit off or FakeRepo "
        "clean) every single fault position is enumerated: each (file, pattern) made non-matching, each file removed, the "
        "new version rejected (--set-version lower/equal/junk/trailing, no-change bump) x up to 6 orders in which the config "
        "lists the files (all permutations up to 3 entries) x {update, update --dry then update}. A fault-free control run of "
        "the same arguments must succeed first. DRYREAL adds forked dry/real pairs. distinct_nontrivial = distinct "
        "(file-pattern layout, fault, order, mode) combinations executed.")
ASSUMPTIONS = ["fault vocabulary = the causes the statement names (unmatched pattern, missing file, rejected version); "
               "I/O errors and kills in the middle of a rewrite are not injected because no property promises anything there",
               "FakeRepo stands in for git"]
COMPONENTS = {"bumpver cli update [--dry], rewrite, v1/v2rewrite": "real", "files": "real scratch directory (faults applied to it)",
              "VCS": "none or FakeRepo", "clock": "simulated"}
CAMPAIGNS = [FaultPos("C06", quick=220, thorough=8000), DryReal("C06", quick=6000, thorough=150000)]


def sanity_gate(tier, total):
    need = ["fs_break", "fs_remove", "fs_unreadable", "version_reject"]
    out = ["fault kind %s never fired" % p for p in need if total["faults"].get(p, 0) == 0]
    if total["counters"].get("control_run_failed", 0) > 0.5 * max(1, total["runs"]):
        out.append("more than half of the control runs failed")
    return out
