"""C12 - messages, tag names and paths reach the VCS verbatim."""
from campaigns.argv import Argv
from campaigns.commitfail import CommitFail

PROPERTY = "C12"
LEVEL = "exploration"
RULE = ("ARGV: commit and tag message templates (from config in TOML and INI, and from -c/--tag-message incl. the OLD/NEW "
        "shorthand) built from words, documented placeholders and adversarial pieces (single/double quotes, backslashes, "
        "blanks, leading dashes, $VAR, backticks, $(..), ;, &&, |, #, newlines, non-ASCII) and configured file names with "
        "spaces, quotes, leading dashes, backslashes, tabs. Every world is run twice: with the adversarial values and with plain "
        "control values (M0/T0/plainN.txt); the argv lists recorded at the subprocess seam must be equal except that the "
        "control value is replaced by the reference-computed value, as exactly one argument (hg: content of the --logfile). "
        "ARGVREAL: the same against real git objects (commit body, tag contents, files of the commit). "
        "distinct_nontrivial = distinct (special pieces present, message sources, personality, file names)."
        " COMMITFAIL: after real git refused the commit, the index differs from HEAD in configured paths only, and a commit made after the refusal holds configured files only.")
ASSUMPTIONS = ["templates contain no braces other than the documented placeholders (bumpver rejects those before anything happens)",
               "config-file messages never begin or end with a quote or blank (stripped by design of the INI syntax; for TOML "
               "this is arguably lossy - candidate F10, outside the generator)",
               "hg is FakeRepo only"]
COMPONENTS = {"bumpver cli update, vcs.VCSAPI": "real", "git/hg": "FakeRepo at the argv seam (ARGV); real git 2.39 (ARGVREAL)",
              "git (COMMITFAIL)": "real git 2.39 with a real /bin/sh pre-commit hook"}
CAMPAIGNS = [Argv("C12", quick=10000, thorough=300000), Argv("C12", quick=200, thorough=6000, real=True),
             CommitFail("C12", quick=160, thorough=4000)]


def sanity_gate(tier, total):
    need = ["message_with_single_quote", "message_with_double_quote", "message_with_backslash", "message_with_newline",
            "odd_file_name", "real_git_objects_checked"]
    return ["probe %s never fired" % p for p in need if total["probes"].get(p, 0) == 0]
