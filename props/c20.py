"""C20 - legacy {...} patterns render, read back and increase consistently."""
from campaigns.testcmd import TestCmd
from campaigns.life import Life
from campaigns.sweep import LegacySweep

PROPERTY = "C20"
LEVEL = "exploration"
RULE = ("TESTCMD chains and LIFE histories with the legacy brace patterns ({pycalver}, {semver}, composites of {year}/{yy}, "
        "{month}/{month_short}, {dom}, {doy}, {quarter}, {build_no}/{bid}/{BID}/{BBB}, {release}/{tag}, {MAJOR}/{MINOR}/{PATCH} "
        "and zero-padded MM/PPP) under a moving clock 2000..2098, --set-version targets included. Laws checked on every "
        "announced version: accepted in full by the reference legacy recogniser, reads back with the same parts, re-renders "
        "identically, strictly greater (for {pycalver} also as a plain string); `test` and `update --dry` in a project "
        "configured with the same (version, pattern) must agree (engine dispatch); LIFE rewrites slots incl. "
        "{pep440_version}. LEGACYSWEEP: the simulated clock visits every day 2000-01-01..2099-12-31 (quick: the years 2000, "
        "2004, 2096, 2099, every New-Year window and seeded years) for the legacy calendar composites; `bumpver test` must "
        "announce a version that its pattern accepts and that reads back with the same parts. distinct_nontrivial = distinct (pattern parts, flags, set-version kind, clock relation, outcome).")
ASSUMPTIONS = ["{iso_week}/{us_week}/{dom_short}-only and {doy_short} composites are outside the statement's list",
               "no bump-rule model for legacy patterns (the statement gives laws, not rules)"]
COMPONENTS = {"bumpver cli test/update/show, v1version/v1patterns/v1rewrite": "real", "clock": "simulated",
              "files": "real scratch directory"}
CAMPAIGNS = [TestCmd("C20", quick=9000, thorough=300000, sv_rate=0.25, legacy=True),
             Life("C20", quick=6000, thorough=150000, sv_rate=0.05, family="legacy", vcs="none", force_pep=True, dry_rate=0.05,
                  nmax=5),
             LegacySweep()]


def sanity_gate(tier, total):
    need = ["legacy_dispatch_compared", "real_update_ok", "sv_trailing", "sv_greater"]
    return ["probe %s never fired" % p for p in need if total["probes"].get(p, 0) == 0]
