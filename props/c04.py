"""C04 - rewriting touches nothing but the matched spans."""
from campaigns.life import Life, Locale, WriteFault
from campaigns.commitfail import CommitFail

PROPERTY = "C04"
LEVEL = "exploration"
RULE = ("LIFE histories in generated projects whose file contents come from the byte-content generator (printable ASCII, "
        "non-ASCII, BOM, control characters incl. VT/FF/NEL/LS/PS/NUL, regex metacharacter sequences), LF/CRLF/CR/mixed "
        "regimes, with and without final newline, plus unconfigured files. After every invocation the whole directory is "
        "compared byte for byte with the template model (literals verbatim + slots). LOCALE leg: the same update is run "
        "in a child interpreter under LC_ALL=C with UTF-8 mode off on a copy of the directory and must give identical bytes. "
        "distinct_nontrivial = distinct (pattern part set, flags, clock relation, region kinds, regimes, walk result) of "
        "successful real updates that were walked."
        " COMMITFAIL: real git's pre-commit hook refuses the release commit (plainly, after touching a file, or once) while an unconfigured tracked file holds uncommitted work under --allow-dirty; that file must keep its bytes.")
ASSUMPTIONS = ["template model of file content; filler never contains '@' or line terminators",
               "surrogates / invalid UTF-8 are not generated (bumpver reads files as UTF-8 by design)"]
COMPONENTS = {"bumpver cli update, rewrite": "real", "files": "real scratch directory", "clock": "simulated",
              "process locale": "real child interpreter for the ASCII-locale leg",
              "git (COMMITFAIL)": "real git 2.39 with a real /bin/sh pre-commit hook", "open() for writing (WRITEFAULT)": "fault seam"}
CAMPAIGNS = [Life("C04", quick=9000, thorough=400000, mode="bytes", sv_rate=0.05, vcs="none"),
             Locale("C04", quick=320, thorough=16000), WriteFault("C04", quick=1500, thorough=60000),
             CommitFail("C04", quick=160, thorough=4000)]


def sanity_gate(tier, total):
    need = ["real_update_ok", "file_regime_crlf", "file_regime_cr", "file_regime_mixed", "no_final_newline", "bom_file",
            "child_locale_ascii", "non_ascii_content"]
    return ["probe %s never fired" % p for p in need if total["probes"].get(p, 0) == 0]
