"""C11 - uncommitted changes are never swept into the bump commit."""
from campaigns.dirty import Dirty

PROPERTY = "C11"
LEVEL = "fault_enumeration"
EXHAUSTIVE = {"quick": True, "thorough": True}
RULE = ("DIRTY: real git repositories. The full matrix of every status git can report for a file (clean, modified unstaged / "
        "staged / both, added, added+modified, deleted unstaged / staged, renamed, untracked) x {file carrying a version "
        "pattern, unrelated file} x --allow-dirty on/off is enumerated completely (100 cases incl. a pattern file with a name git prints quoted and one listed under a non-normalised key `./sub/b.txt`, each with four sets of unrelated flags: none, --ignore-vcs-tag, --tag-scope branch, --pin-increments = 400 runs), followed by seeded combinations "
        "of 2..3 dirty files (quick 80, thorough 100,000). The status text is what real `git status --porcelain` prints (checked "
        "against the expected XY columns). Oracle: statement predicates on exit code, file bytes, HEAD and tags; content of the "
        "bump commit from `git show`. distinct_nontrivial = distinct (set of (status, target), allow-dirty) combinations.")
ASSUMPTIONS = ["nothing is asserted about *staged* unrelated files under --allow-dirty (the statement does not)",
               "git only (no hg binary)"]
COMPONENTS = {"bumpver cli update, vcs.status/assert_not_dirty/commit": "real", "git": "real git 2.39 (pinned identity, dates, config)",
              "files": "real scratch repository"}
CAMPAIGNS = [Dirty("C11", quick=140, thorough=100000)]


def sanity_gate(tier, total):
    need = ["status_%s_%s" % (s, t) for s in ("modified_unstaged", "modified_staged", "added", "deleted_staged", "renamed", "untracked")
            for t in ("pattern", "unrelated")]
    return ["probe %s never fired" % p for p in need if total["probes"].get(p, 0) == 0]
