"""C05 - bump semantics follow the documented part rules (refinement against ref.bump)."""
from campaigns.testcmd import TestCmd

PROPERTY = "C05"
LEVEL = "exploration"
RULE = ("TESTCMD chains (1..6 `bumpver test` steps, each from the previously announced version) over grammar patterns x "
        "reference-rendered states (boundary values) x flag sets (biased 0-3 flags; half of the thorough runs draw from all 2^7 "
        "subsets) x clock moves (same day / later / far later / backwards) via TODAY and via --date. distinct_nontrivial = "
        "distinct (pattern part set, flag set, set-version kind, clock relation, outcome class) where the bump model had a "
        "verdict to compare (success, rule-mandated failure, or gate-protected failure).")
ASSUMPTIONS = ["ref.bump / ref.pattern transcribe the README rules; classes the README leaves open are skipped and counted "
               "(unspecified_*)", "pattern grammar and value spaces are sampled, not enumerated"]
COMPONENTS = {"bumpver cli test + v2version/v2patterns": "real", "clock": "simulated (version.TODAY and --date)",
              "reference bump model / recogniser / PEP 440 order": "independent re-implementation (ref/)"}
CAMPAIGNS = [TestCmd("C05", quick=40000, thorough=900000, all_flag_subsets=True, sv_rate=0.05)]


def sanity_gate(tier, total):
    need = ["optional_group_omitted", "pin_date_success", "bump_after_clock_went_back", "must_fail_no_change",
            "must_fail_flag_not_applicable"]
    return ["probe %s never fired" % p for p in need if total["probes"].get(p, 0) == 0]
