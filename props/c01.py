"""C01 - a successful bump yields a valid, strictly greater version."""
from campaigns.testcmd import TestCmd
from campaigns.life import Life
from campaigns.tags import Tags
from campaigns.unquoted import Unquoted

PROPERTY = "C01"
LEVEL = "exploration"
RULE = ("TESTCMD chains of `bumpver test` (see C05) with 35% of steps using --set-version targets derived by the reference "
        "model (greater, equal, lower, junk, trailing text, PEP 440-equal alternative spelling, tag downgrade, other scheme), "
        "plus LIFE histories of `update`/`update --dry` in generated projects. distinct_nontrivial = distinct (pattern part "
        "set, flag set, set-version kind, clock relation, outcome) in which a version was announced or a rejection was due."
        " UNQUOTED: a TOML config whose current_version is a bare number (1.10, 2026.1100, 25.10): every command refuses, or behaves as if it had read the text as written.")
ASSUMPTIONS = ["reference recogniser (ref.pattern) and vendored packaging.version decide 'matches in full' and 'greater'"]
COMPONENTS = {"bumpver cli test/update": "real", "clock": "simulated", "files": "real scratch directory",
              "VCS": "FakeRepo or none",
              "config (UNQUOTED)": "real loader on a TOML current_version written as a bare number"}
CAMPAIGNS = [TestCmd("C01", quick=20000, thorough=800000, sv_rate=0.35),
             Life("C01", quick=6000, thorough=300000, sv_rate=0.35, dry_rate=0.3),
             Tags("C01", quick=3000, thorough=100000),
             Unquoted("C01", quick=300, thorough=6000)]


def sanity_gate(tier, total):
    need = ["sv_greater", "sv_equal", "sv_lower", "sv_junk", "sv_trailing", "sv_pep_equal", "sv_tag_down"]
    return ["probe %s never fired" % p for p in need if total["probes"].get(p, 0) == 0]
