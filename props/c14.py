"""C14 - calendar versions never run backwards as the date advances."""
from campaigns.sweep import SweepMonotone, RejectIncoherent, FutureBump, COHERENT
from campaigns.testcmd import TestCmd
from campaigns.unquoted import Unquoted

PROPERTY = "C14"
LEVEL = "exploration"
EXHAUSTIVE = {"quick": False, "thorough": True}
RULE = ("SWEEP: for each of the %d coherent year x sub-part patterns the simulated clock visits consecutive days and "
        "`bumpver test V0 P --date D` announces R(D); oracle cmp(R(D+1), R(D)) >= 0 under the reference PEP 440 order. "
        "thorough: every day 2001-01-01..2099-12-31 (all 36,158 consecutive pairs per pattern); quick: every New Year "
        "window (Dec 21 - Jan 10) of every year plus three seeded full years per pattern. REJECT: every calendar-year/ISO-week "
        "and ISO-year/non-ISO-week pairing must be refused by test, update and show, and the renderer is shown to run "
        "backwards for it. TESTCMD bump leg: backward/forward clock jumps, calendar parts never decrease. "
        "distinct_nontrivial = distinct (pattern, day) pairs compared, plus distinct bump-leg classes."
        " UNQUOTED: a TOML config whose current_version is a bare number (1.10, 2026.1100, 25.10): every command refuses, or behaves "
        "as if it had read the text as written." % len(COHERENT))
ASSUMPTIONS = ["reference order = vendored packaging.version + legacy key", "clock domain 2001..2099 as in the statement",
               "days on which WW/UU give week 53 cannot be rendered-and-read (known finding F8 of C02/C05); the sweep "
               "counts them (steered_week53) instead of reporting them here"]
COMPONENTS = {"bumpver cli test/update/show": "real", "clock": "simulated (--date / version.TODAY)",
              "config (UNQUOTED)": "real loader on a TOML current_version written as a bare number"}
CAMPAIGNS = [SweepMonotone(), RejectIncoherent(), FutureBump(), TestCmd("C14", quick=6000, thorough=200000, sv_rate=0.0),
             Unquoted("C14", quick=300, thorough=6000)]


def sanity_gate(tier, total):
    need = ["rendering_changed", "week53_day_hit", "rejected_pairing_shown_nonmonotone", "bump_after_clock_went_back",
            "future_version_bumped", "bump_date_in_week0"]
    return ["probe %s never fired" % p for p in need if total["probes"].get(p, 0) == 0]
