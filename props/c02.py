"""C02 - rendered versions are accepted by their own pattern and read back unchanged."""
from campaigns.sweep import SweepRoundTrip
from campaigns.testcmd import TestCmd
from campaigns.life import Life
from campaigns.faultpos import FaultPos

PROPERTY = "C02"
LEVEL = "exploration"
EXHAUSTIVE = {"quick": False, "thorough": False}
RULE = ("SWEEP: the simulated clock visits every day of its domain (thorough: 1000-01-01..9999-12-31 for 12 four-digit-year "
        "patterns, 2001..2099 for 7 two-digit-year patterns; quick: 2001..2099 plus seeded other centuries and both ends) and "
        "the real renderer/recogniser pair (through sim/adapter.py) must satisfy: full match, every part reads back equal, "
        "re-render is byte-identical. TESTCMD/LIFE: every version announced along bump histories is fed back as the next "
        "input, round-tripped through the adapter, and (LIFE) printed by `show`. distinct_nontrivial = distinct (pattern, "
        "year block) sweep units + distinct history classes with an announced version.")
ASSUMPTIONS = ["states reachable by bumping = the states the seeded histories reach; the value space away from boundaries is sampled",
               "the SWEEP leg calls library entry points through one adapter module, everything else goes through the CLI"]
COMPONENTS = {"bumpver v2version/v2patterns (adapter), cli test/update/show": "real", "clock": "simulated"}
CAMPAIGNS = [SweepRoundTrip(), TestCmd("C02", quick=12000, thorough=400000, sv_rate=0.1),
             Life("C02", quick=3000, thorough=120000, sv_rate=0.1),
             FaultPos("C02", quick=400, thorough=12000, only=("cover_first",))]


def sanity_gate(tier, total):
    need = ["week53_day_hit", "iso_week53_day_hit", "leap_day366_hit", "real_update_ok"]
    return ["probe %s never fired" % p for p in need if total["probes"].get(p, 0) == 0]
