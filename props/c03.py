"""C03 - after an update no configured occurrence is left stale."""
from campaigns.life import Life
from campaigns.badconfig import BadConfig

PROPERTY = "C03"
LEVEL = "exploration"
RULE = ("LIFE histories (1..6 update / update --dry / show invocations under a moving clock) in generated projects of 1..4 "
        "files x 1..4 marker-carrying search patterns ({version}, {pep440_version}, explicit, partial), 1..3 occurrences each, "
        "shared lines with two different patterns, LF/CRLF/CR/mixed files, glob and repeated entries, every config syntax. "
        "After each successful real update the template walker compares every slot with the reference rendering. "
        "distinct_nontrivial = distinct (pattern part set, flag set, set-version kind, clock relation, region kinds, "
        "line-ending regimes, walk result) of successful real updates that were walked."
        " BADCONFIG: a setup.cfg that lists one file twice with its patterns split over both blocks: refused, or every slot is updated.")
ASSUMPTIONS = ["template model + ref.pattern renderer are the oracle; filler never contains the marker character '@'",
               "value of a {pep440_version} slot is attributed to C15, staleness to C03"]
COMPONENTS = {"bumpver cli update/show, config, rewrite": "real", "files": "real scratch directory", "clock": "simulated",
              "VCS": "none or FakeRepo (git personality)",
              "config (BADCONFIG)": "real loader on a malformed setup.cfg"}
CAMPAIGNS = [Life("C03", quick=14000, thorough=400000, mode="mix", sv_rate=0.08, invalid_utf8=True),
             BadConfig("C03", "dup_key", quick=400, thorough=8000)]


def sanity_gate(tier, total):
    need = ["two_patterns_one_line", "real_update_ok", "file_regime_crlf", "file_regime_cr", "file_regime_mixed",
            "glob_entry", "repeated_file_entry", "bare_version_pattern"]
    return ["probe %s never fired" % p for p in need if total["probes"].get(p, 0) == 0]
