"""C09 - the current version is the greatest matching tag in scope."""
from campaigns.tags import Tags

PROPERTY = "C09"
LEVEL = "exploration"
RULE = ("TAGS: FakeRepo (git personality) serves tag sets of 0..30 tags (valid versions near the config version, PEP 440-equal "
        "respellings, other schemes, junk, calendar-impossible dates) spread over 1..4 branches with HEAD on any of them; tag "
        "scope default/global/branch from config and --tag-scope; --ignore-vcs-tag on/off; config version below/equal/above the "
        "tags; histories of 1..4 show/update invocations. TAGSREAL builds the same histories with real git (and fails as a "
        "harness error if FakeRepo's tag listing differs from git's). Oracle: announced start version is one of the answers "
        "of the reference scope rule; no tag may crash a run; a new version never equals an existing tag. "
        "distinct_nontrivial = distinct (scope, ignore flag, op, tag kinds present, config-vs-tags relation, head on main, "
        "#branches) where a start version was announced.")
ASSUMPTIONS = ["reference 'matches the pattern' = ref.pattern recogniser; order = vendored packaging.version + legacy key",
               "a calendar-impossible tag may be counted as matching or not (both answers accepted) but must not break the run",
               "hg tag listing is not exercised (no hg binary; FakeRepo hg personality is only used by C10)"]
COMPONENTS = {"bumpver cli show/update, vcs.get_tags": "real", "git": "FakeRepo model (TAGS) and real git 2.39 (TAGSREAL)",
              "clock": "simulated"}
CAMPAIGNS = [Tags("C09", quick=15000, thorough=400000), Tags("C09", quick=160, thorough=5000, real=True)]


def sanity_gate(tier, total):
    need = ["tagkind_valid", "tagkind_respelled", "tagkind_other", "tagkind_junk", "tagkind_impossible",
            "tag_on_other_branch", "update_ok", "fakerepo_validated_against_git"]
    need_faults = ["vcs_fail_fetch", "vcs_fail_ls_tags"]
    return ["probe %s never fired" % p for p in need if total["probes"].get(p, 0) == 0] + \
        ["fault %s never fired" % p for p in need_faults if total["faults"].get(p, 0) == 0]
