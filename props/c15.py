"""C15 - {pep440_version} always denotes the same version as {version}."""
from campaigns.life import Life
from campaigns.testcmd import TestCmd

PROPERTY = "C15"
LEVEL = "exploration"
RULE = ("LIFE histories in projects that carry a {pep440_version} occurrence next to {version} occurrences, over grammar "
        "patterns with prefix '' or 'v' (all separators, so that the known separator finding is hit on purpose), all tags, "
        "NUM present or absent, BUILD ids including value 0. After every successful update the text found in each "
        "{pep440_version} slot is judged by the vendored packaging.version: valid, equal to the announced version, no 'v', "
        "no leading zeros after the first component, short tag form + number; `bumpver grep` must find it again; `show` and "
        "`test` print an equal PEP440 line. The simulation adds nothing on the fault axis here: the observable is file "
        "bytes after real runs over states reached by histories. distinct_nontrivial = distinct walked update classes.")
ASSUMPTIONS = ["the starting content of a {pep440_version} slot is rendered by bumpver itself (so that the world is one "
               "bumpver accepts); everything an update writes is judged by the independent reference"]
COMPONENTS = {"bumpver cli update/show/grep/test": "real", "files": "real scratch directory", "clock": "simulated",
              "PEP 440 reference": "vendored packaging.version"}
CAMPAIGNS = [Life("C15", quick=8000, thorough=300000, sv_rate=0.05, vcs="none", pep_any=True, force_pep=True, zero_bid=True, twin_pair=True, invalid_utf8=True,
                  grep_pep=True, dry_rate=0.05),
             TestCmd("C15", quick=8000, thorough=200000, sv_rate=0.05)]


def sanity_gate(tier, total):
    need = ["pep440_slot_grepped", "real_update_ok"]
    return ["probe %s never fired" % p for p in need if total["probes"].get(p, 0) == 0]
