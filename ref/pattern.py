"""Reference model of the documented v2 pattern language (README "Part Overview"): tokeniser,
renderer (with omission of all-zero optional groups), and a hand-written recursive-descent
recogniser.  Calendar fields come from integer arithmetic, not strftime.  Never imports bumpver."""
import datetime as dt

# part -> (field, kind)
PARTS = {
    "YYYY": ("year_y", "year4"), "YY": ("year_y", "year2"), "0Y": ("year_y", "year2p"),
    "GGGG": ("year_g", "year4"), "GG": ("year_g", "year2"), "0G": ("year_g", "year2p"),
    "Q": ("quarter", "q"),
    "MM": ("month", "n:1:12"), "0M": ("month", "p2:1:12"),
    "DD": ("dom", "n:1:31"), "0D": ("dom", "p2:1:31"),
    "JJJ": ("doy", "n:1:366"), "00J": ("doy", "p3:1:366"),
    "WW": ("week_w", "n:0:52"), "0W": ("week_w", "p2:0:52"),
    "UU": ("week_u", "n:0:52"), "0U": ("week_u", "p2:0:52"),
    "VV": ("week_v", "n:1:53"), "0V": ("week_v", "p2:1:53"),
    "MAJOR": ("major", "num"), "MINOR": ("minor", "num"), "PATCH": ("patch", "num"),
    "BUILD": ("bid", "build"), "BLD": ("bid", "bld"),
    "TAG": ("tag", "tag"), "PYTAG": ("tag", "pytag"),
    "NUM": ("num", "num"), "INC0": ("inc0", "num"), "INC1": ("inc1", "num1"),
}
PART_NAMES = sorted(PARTS, key=lambda p: (-len(p), p))

# Legacy {brace} parts live in the same table under an "L." prefix (ref/legacy.py builds trees with them).
LEGACY_PARTS = {
    "L.year": ("year_y", "year4"), "L.yyyy": ("year_y", "year4"), "L.yy": ("year_y", "year2p"),
    "L.month": ("month", "p2:1:12"), "L.month_short": ("month", "n:1:12"),
    "L.dom": ("dom", "p2:1:31"), "L.dom_short": ("dom", "n:1:31"), "L.doy": ("doy", "p3:1:366"),
    "L.quarter": ("quarter", "q"),
    "L.build_no": ("bid", "build4"), "L.bid": ("bid", "build4"), "L.BID": ("bid", "bld"),
    "L.BB": ("bid", "bldpad:2"), "L.BBB": ("bid", "bldpad:3"), "L.BBBB": ("bid", "bldpad:4"), "L.BBBBB": ("bid", "bldpad:5"),
    "L.tag": ("tag", "tag"), "L.release_tag": ("tag", "tag"), "L.pep440_tag": ("tag", "pytag0"),
    "L.MAJOR": ("major", "num"), "L.MINOR": ("minor", "num"), "L.PATCH": ("patch", "num"),
    "L.MM": ("minor", "numpad:2"), "L.MMM": ("minor", "numpad:3"), "L.MMMM": ("minor", "numpad:4"),
    "L.PP": ("patch", "numpad:2"), "L.PPP": ("patch", "numpad:3"), "L.PPPP": ("patch", "numpad:4"),
}
PARTS.update(LEGACY_PARTS)
CAL_FIELDS = ("year_y", "year_g", "quarter", "month", "dom", "doy", "week_w", "week_u", "week_v")
RESETTABLE = {"major": 0, "minor": 0, "patch": 0, "num": 0, "inc0": 0, "inc1": 1}
ZERO = {"major": 0, "minor": 0, "patch": 0, "num": 0, "inc0": 0, "tag": "final"}
# "preview" is an alias of rc that the TAG part accepts (not in the README's list, but a version that carries it is a valid
# current version, and "TAG carried over unless --tag is given" applies to it like to any other)
TAGS = ("alpha", "beta", "rc", "post", "dev", "final", "preview")
PYTAG = {"alpha": "a", "beta": "b", "rc": "rc", "post": "post", "dev": "dev", "final": "", "preview": "rc"}
PYTAG_INV = {v: k for k, v in PYTAG.items() if k != "preview"}


class PatternSyntaxError(Exception):
    pass


# ---- calendar arithmetic (independent of strftime) ---------------------------------------------

def cal_fields(date):
    """All calendar fields of a date, by integer arithmetic."""
    year = date.year
    jan1 = dt.date(year, 1, 1)
    doy = date.toordinal() - jan1.toordinal() + 1
    wd = date.weekday()  # Monday = 0
    # %W: week of year, Monday first; days before the first Monday are week 0
    week_w = (doy + 6 - wd) // 7
    # %U: Sunday first
    wd_sun = (wd + 1) % 7  # Sunday = 0
    week_u = (doy + 6 - wd_sun) // 7
    # ISO 8601: the week with the year's first Thursday is week 1
    thursday = date.toordinal() - wd + 3
    th = dt.date.fromordinal(thursday)
    year_g = th.year
    week_v = (thursday - dt.date(year_g, 1, 1).toordinal()) // 7 + 1
    return {"year_y": year, "year_g": year_g, "quarter": (date.month - 1) // 3 + 1, "month": date.month,
            "dom": date.day, "doy": doy, "week_w": week_w, "week_u": week_u, "week_v": week_v}


# ---- tokeniser ------------------------------------------------------------------------------------
# tree := list of nodes; node := ("lit", text) | ("part", name) | ("opt", tree)

def tokenize(pattern):
    pos = 0
    n = len(pattern)
    stack = [[]]
    lit = []

    def flush():
        if lit:
            stack[-1].append(("lit", "".join(lit)))
            del lit[:]

    while pos < n:
        ch = pattern[pos]
        if ch == "\\" and pos + 1 < n and pattern[pos + 1] in "[]":
            lit.append(pattern[pos + 1])
            pos += 2
            continue
        if ch == "[":
            flush()
            stack.append([])
            pos += 1
            continue
        if ch == "]":
            flush()
            if len(stack) == 1:
                raise PatternSyntaxError("unbalanced ] in %r" % pattern)
            sub = stack.pop()
            stack[-1].append(("opt", sub))
            pos += 1
            continue
        for name in PART_NAMES:
            if pattern.startswith(name, pos):
                flush()
                stack[-1].append(("part", name))
                pos += len(name)
                break
        else:
            lit.append(ch)
            pos += 1
    flush()
    if len(stack) != 1:
        raise PatternSyntaxError("unclosed [ in %r" % pattern)
    return stack[0]


def parts_of(tree):
    """Part names in left-to-right order (recursing into groups)."""
    out = []
    for node in tree:
        if node[0] == "part":
            out.append(node[1])
        elif node[0] == "opt":
            out.extend(parts_of(node[1]))
    return out


def fields_of(tree):
    seen = []
    for p in parts_of(tree):
        f = PARTS[p][0]
        if f not in seen:
            seen.append(f)
    return seen


def unparse(tree):
    out = []
    for node in tree:
        if node[0] == "lit":
            out.append(node[1].replace("[", "\\[").replace("]", "\\]"))
        elif node[0] == "part":
            out.append(node[1])
        else:
            out.append("[" + unparse(node[1]) + "]")
    return "".join(out)


# ---- renderer -------------------------------------------------------------------------------------

def render_part(name, state):
    field, kind = PARTS[name]
    val = state.get(field)
    if kind == "tag":
        return val if val is not None else "final"
    if kind == "pytag":
        return PYTAG[val if val is not None else "final"]
    if kind in ("build", "build4"):
        return str(val)
    if kind == "bld":
        return str(int(val))
    if kind.startswith("bldpad:"):
        return str(int(val)).zfill(int(kind.split(":")[1]))
    if kind.startswith("numpad:"):
        return str(val).zfill(int(kind.split(":")[1]))
    if kind == "pytag0":
        tag = val if val is not None else "final"
        return "" if tag == "final" else PYTAG[tag] + "0"
    if val is None:
        raise KeyError("state has no value for %s (%s)" % (name, field))
    if kind == "year4":
        return "%d" % val
    if kind == "year2":
        return "%d" % (val % 100)
    if kind == "year2p":
        return "%02d" % (val % 100)
    if kind in ("num", "num1", "q"):
        return "%d" % val
    fmt, _lo, _hi = kind.split(":")
    if fmt == "n":
        return "%d" % val
    if fmt == "p2":
        return "%02d" % val
    if fmt == "p3":
        return "%03d" % val
    raise AssertionError(kind)


def part_is_zero(name, state):
    field, kind = PARTS[name]
    if field not in ZERO:
        return False
    val = state.get(field)
    if field == "tag":
        return (val or "final") == "final"
    return (val or 0) == 0


def group_all_zero(tree, state):
    names = parts_of(tree)
    return bool(names) and all(part_is_zero(p, state) for p in names)


def render(tree, state):
    """Documented rendering: an optional group is omitted exactly when all its parts are zero.
    The top level is never omitted."""
    out = []
    for node in tree:
        if node[0] == "lit":
            out.append(node[1])
        elif node[0] == "part":
            out.append(render_part(node[1], state))
        else:
            if not group_all_zero(node[1], state):
                out.append(render(node[1], state))
    return "".join(out)


# ---- recogniser ------------------------------------------------------------------------------------

def _part_candidates(name, text, pos):
    """Yield (end, raw) for every way part `name` can match at text[pos:], longest first."""
    _field, kind = PARTS[name]
    n = len(text)

    def digits_run(p):
        q = p
        while q < n and text[q] in "0123456789":
            q += 1
        return q

    if kind == "pytag0":
        for w in ("post0", "dev0", "rc0", "a0", "b0"):
            if text.startswith(w, pos):
                yield (pos + len(w), w)
        yield (pos, "")
        return
    if kind in ("tag", "pytag"):
        words = TAGS if kind == "tag" else ("post", "dev", "rc", "a", "b")
        for w in sorted(words, key=lambda w: -len(w)):
            if text.startswith(w, pos):
                yield (pos + len(w), w)
        return
    end = digits_run(pos)
    if end == pos:
        return
    if kind == "year4":
        if end - pos >= 4 and text[pos] != "0":
            yield (pos + 4, text[pos:pos + 4])
        return
    if kind == "year2":
        for ln in (2, 1):
            if end - pos >= ln and text[pos] != "0":
                yield (pos + ln, text[pos:pos + ln])
        return
    if kind == "year2p":
        if end - pos >= 2:
            yield (pos + 2, text[pos:pos + 2])
        return
    if kind == "q":
        if text[pos] in "1234":
            yield (pos + 1, text[pos])
        return
    if kind in ("num", "build"):
        for e in range(end, pos, -1):
            yield (e, text[pos:e])
        return
    if kind == "build4" or kind.startswith("numpad:") or kind.startswith("bldpad:"):
        width = 4 if kind == "build4" else int(kind.split(":")[1])
        if kind.startswith("bldpad:") and text[pos] == "0":
            return
        for e in range(end, pos + width - 1, -1):
            yield (e, text[pos:e])
        return
    if kind in ("num1", "bld"):
        if text[pos] == "0":
            return
        for e in range(end, pos, -1):
            yield (e, text[pos:e])
        return
    fmt, lo, hi = kind.split(":")
    lo, hi = int(lo), int(hi)
    if fmt == "n":
        maxlen = len(str(hi))
        for ln in range(min(maxlen, end - pos), 0, -1):
            raw = text[pos:pos + ln]
            if ln > 1 and raw[0] == "0":
                continue
            if lo <= int(raw) <= hi:
                yield (pos + ln, raw)
        return
    width = 2 if fmt == "p2" else 3
    if end - pos >= width:
        raw = text[pos:pos + width]
        if lo <= int(raw) <= hi:
            yield (pos + width, raw)


def _match_seq(nodes, i, text, pos, acc, out, limit):
    if len(out) >= limit:
        return
    if i == len(nodes):
        out.append((pos, dict(acc)))
        return
    node = nodes[i]
    if node[0] == "lit":
        if text.startswith(node[1], pos):
            _match_seq(nodes, i + 1, text, pos + len(node[1]), acc, out, limit)
        return
    if node[0] == "part":
        name = node[1]
        for end, raw in _part_candidates(name, text, pos):
            key = name if name not in acc else name + "#2"
            acc[key] = raw
            _match_seq(nodes, i + 1, text, end, acc, out, limit)
            del acc[key]
            if len(out) >= limit:
                return
        return
    # optional group: present first, then absent
    sub_out = []
    _match_seq(node[1], 0, text, pos, acc, sub_out, limit * 4)
    for end, acc2 in sub_out:
        _match_seq(nodes, i + 1, text, end, acc2, out, limit)
        if len(out) >= limit:
            return
    _match_seq(nodes, i + 1, text, pos, acc, out, limit)


def raw_to_state(raw):
    """raw: part name -> matched text.  -> state dict (field -> value)"""
    st = {}
    for name, text in raw.items():
        name = name.split("#")[0]
        field, kind = PARTS[name]
        if kind == "tag":
            val = text
        elif kind == "pytag":
            val = PYTAG_INV[text]
        elif kind == "pytag0":
            val = PYTAG_INV[text[:-1]] if text else "final"
        elif kind in ("build", "bld", "build4") or kind.startswith("bldpad:"):
            val = text
        elif kind in ("year2", "year2p"):
            val = 2000 + int(text)
        else:
            val = int(text)
        if field in st and st[field] != val:
            st["__conflict__"] = field
        st[field] = val
    return st


def recognise(tree, text, limit=3):
    """All distinct full parses of text (up to limit) as state dicts restricted to matched parts.
    Omitted optional parts get their zero / initial value."""
    out = []
    _match_seq(tree, 0, text, 0, {}, out, limit * 8)
    results = []
    fields = fields_of(tree)
    for end, raw in out:
        if end != len(text):
            continue
        st = raw_to_state(raw)
        for f in fields:
            if f not in st:
                if f == "tag":
                    st[f] = "final"
                elif f == "inc1":
                    st[f] = 1
                elif f in ("major", "minor", "patch", "num", "inc0"):
                    st[f] = 0
        if st not in results:
            results.append(st)
        if len(results) >= limit:
            break
    return results


def accepts(tree, text):
    return bool(recognise(tree, text, limit=1))


def search(tree, line):
    """First (start, end) at which the pattern matches inside line (leftmost, then longest-preferring)."""
    for start in range(len(line) + 1):
        out = []
        _match_seq(tree, 0, line, start, {}, out, 1)
        if out:
            return (start, out[0][0])
    return None


# ---- calendar coherence (documented: VV/0V need GGGG/GG/0G; WW/UU need YYYY/YY/0Y) ------------------

def week_year_coherent(tree):
    names = set(parts_of(tree))
    has_y = bool(names & {"YYYY", "YY", "0Y"})
    has_g = bool(names & {"GGGG", "GG", "0G"})
    has_wu = bool(names & {"WW", "0W", "UU", "0U"})
    has_v = bool(names & {"VV", "0V"})
    if has_y and has_v:
        return False
    if has_g and has_wu:
        return False
    return True


def state_for_date(tree, date, base=None):
    """A state whose calendar fields (those the pattern mentions) are those of date."""
    st = dict(base or {})
    cal = cal_fields(date)
    for f in fields_of(tree):
        if f in cal:
            st[f] = cal[f]
    return st
