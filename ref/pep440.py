"""Reference version order: vendored packaging.version (PEP 440) + a re-implementation of the
historical LegacyVersion key for strings that are not PEP 440.  Never imports bumpver."""
import re

from . import _packaging_version as pv


def is_pep440(text):
    try:
        pv.Version(text)
        return True
    except pv.InvalidVersion:
        return False


_component_re = re.compile(r"(\d+ | [a-z]+ | \.| -)", re.VERBOSE)
_replace = {"pre": "c", "preview": "c", "-": "final-", "rc": "c", "dev": "@"}


def _legacy_parts(text):
    for part in _component_re.split(text):
        part = _replace.get(part, part)
        if not part or part == ".":
            continue
        if part[:1] in "0123456789":
            yield part.zfill(8)
        else:
            yield "*" + part
    yield "*final"


def legacy_key(text):
    parts = []
    for part in _legacy_parts(text.lower()):
        if part.startswith("*"):
            if part < "*final":
                while parts and parts[-1] == "*final-":
                    parts.pop()
            while parts and parts[-1] == "00000000":
                parts.pop()
        parts.append(part)
    return tuple(parts)


def key(text):
    """Total-order key: every PEP 440 string sorts above every non-PEP 440 string."""
    try:
        v = pv.Version(text)
        return (1, v._key if hasattr(v, "_key") else pv._cmpkey(v.epoch, v.release, v.pre, v.post, v.dev, v.local), ())
    except pv.InvalidVersion:
        return (0, (), legacy_key(text))


def cmp(a, b):
    """-1 / 0 / +1"""
    pa, pb = is_pep440(a), is_pep440(b)
    if pa and pb:
        va, vb = pv.Version(a), pv.Version(b)
        return (va > vb) - (va < vb)
    if pa != pb:
        return 1 if pa else -1
    ka, kb = legacy_key(a), legacy_key(b)
    return (ka > kb) - (ka < kb)


def canonical(text):
    """PEP 440 normal form, or the text itself when it is not PEP 440."""
    try:
        return str(pv.Version(text))
    except pv.InvalidVersion:
        return text


def parts(text):
    """(release tuple, pre, post, dev) of a PEP 440 string"""
    v = pv.Version(text)
    return (tuple(v.release), v.pre, v.post, v.dev, v.epoch, v.local)
