"""The documented bump rules (README: SemVer parts, auto-increment parts, persistent parts, rollover)
as one function.  Never imports bumpver."""
from . import pattern as rp


class MustFail(Exception):
    def __init__(self, reason):
        Exception.__init__(self, reason)
        self.reason = reason


class Unspecified(Exception):
    def __init__(self, cls):
        Exception.__init__(self, cls)
        self.cls = cls


UNSPECIFIED_CLASSES = (
    "tag_num_on_final",          # --tag-num when the resulting tag is final (README never shows it)
    "build_below_1000",          # successor of an id below 1000 (README only documents ids >= 1000)
    "build_overflow",            # all-nines id: the scheme's documented maximum
)


def lexid_next(prev):
    """Successor in the lexid scheme (from the lexid README table): +1 at the same width; when that
    would change the first digit, the value is written as value*11 (one more digit, leading digit +1)."""
    n = len(prev)
    if prev.count("9") == n:
        raise OverflowError(prev)
    nxt = "%0*d" % (n, int(prev) + 1)
    if nxt[0] == prev[0]:
        return nxt
    return str((int(prev) + 1) * 11)


def cal_tuple(state, fields):
    return tuple(state[f] for f in rp.CAL_FIELDS if f in fields and state.get(f) is not None)


def bump(tree, state, flags, date):
    """-> new state.  flags: major minor patch tag tag_num pin_date pin_increments.
    Raises MustFail / Unspecified."""
    fields = rp.fields_of(tree)
    names = set(rp.parts_of(tree))
    for flag, part in (("major", "MAJOR"), ("minor", "MINOR"), ("patch", "PATCH")):
        if flags.get(flag) and part not in names:
            raise MustFail("flag_not_applicable")
    if not rp.week_year_coherent(tree):
        raise MustFail("incoherent_week_pattern")
    old = dict(state)
    cur = dict(state)
    # calendar
    if not flags.get("pin_date"):
        new_cal = rp.cal_fields(date)
        old_t = cal_tuple(old, fields)
        new_t = tuple(new_cal[f] for f in rp.CAL_FIELDS if f in fields and old.get(f) is not None)
        if not (old_t > new_t):
            for f in fields:
                if f in new_cal:
                    cur[f] = new_cal[f]
    # numeric
    for f in ("major", "minor", "patch"):
        if flags.get(f):
            cur[f] = cur.get(f, 0) + 1
    tag = flags.get("tag")
    cur_tag = cur.get("tag", "final")
    if flags.get("tag_num"):
        result_tag = tag if tag else cur_tag
        if result_tag == "final":
            raise Unspecified("tag_num_on_final")
        cur["num"] = cur.get("num", 0) + 1
    if tag:
        if tag != cur_tag:
            cur["num"] = 0
        cur["tag"] = tag
    if not flags.get("pin_increments"):
        cur["inc0"] = cur.get("inc0", 0) + 1
        cur["inc1"] = cur.get("inc1", 1) + 1
    exact_bid = True
    if "bid" in fields:
        bid = cur["bid"]
        if bid.count("9") == len(bid):
            raise Unspecified("build_overflow")
        if int(bid) < 1000:
            exact_bid = False
            cur["bid"] = None  # only "strictly greater" is required
        else:
            cur["bid"] = lexid_next(bid)
    # rollover: once a part differs from the old state, every later resettable part is reset
    changed = False
    for name in rp.parts_of(tree):
        f = rp.PARTS[name][0]
        if changed and f in rp.RESETTABLE:
            cur[f] = rp.RESETTABLE[f]
        elif cur.get(f) != old.get(f):
            changed = True
    cur = {f: cur.get(f) for f in fields}
    cur["__exact_bid__"] = exact_bid
    return cur


def project(state, fields):
    return {f: state.get(f) for f in fields}
