"""Legacy {brace} patterns -> reference trees (same node types as ref.pattern, legacy parts under the "L." prefix).
Composites are expanded as the README's legacy section describes them.  Never imports bumpver."""
import re

from . import pattern as rp

COMPOSITES = {
    "pycalver": "v{year}{month}.{bid}{release}",
    "calver": "v{year}{month}",
    "semver": "{MAJOR}.{MINOR}.{PATCH}",
    "build": ".{bid}",
    "pep440_pycalver": "{year}{month}.{BID}{pep440_tag}",
    "pep440_version": "{year}{month}.{BID}{pep440_tag}",
    "version": "v{year}{month}.{bid}{release}",
}
_PLACEHOLDER = re.compile(r"\{([A-Za-z_0-9]+)\}")


def is_legacy(pattern):
    return "{" in pattern or "}" in pattern


def tokenize(pattern):
    tree = []
    pos = 0
    for m in _PLACEHOLDER.finditer(pattern):
        if m.start() > pos:
            tree.append(("lit", pattern[pos:m.start()]))
        name = m.group(1)
        if name in COMPOSITES:
            tree.extend(tokenize(COMPOSITES[name]))
        elif name == "release":
            tree.append(("opt", [("lit", "-"), ("part", "L.tag")]))
        elif "L." + name in rp.PARTS:
            tree.append(("part", "L." + name))
        else:
            raise rp.PatternSyntaxError("unknown legacy part {%s}" % name)
        pos = m.end()
    if pos < len(pattern):
        tree.append(("lit", pattern[pos:]))
    # merge adjacent literals
    out = []
    for node in tree:
        if node[0] == "lit" and out and out[-1][0] == "lit":
            out[-1] = ("lit", out[-1][1] + node[1])
        else:
            out.append(node)
    return out


def tokenize_any(pattern):
    return tokenize(pattern) if is_legacy(pattern) else rp.tokenize(pattern)
