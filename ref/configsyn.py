"""Abstract configuration -> config file text in each supported syntax.  Never imports bumpver.

abstract config (dict):
  current_version, version_pattern               required strings
  commit_message, tag_message, tag_scope,
  pre_commit_hook, post_commit_hook              optional strings
  commit, tag, push                              optional booleans
  file_patterns                                  list of [key, [pattern, ...]]  (ordered; keys may be globs)
style (dict, all optional):
  section      'bumpver' | 'pycalver'           (legacy section name)
  bool_true / bool_false                         INI spellings
  quote        '"' | "'" | ''                    INI string quoting
  toml_literal bool                              prefer TOML literal strings
  preamble     text placed before the bumpver section (other tools' sections)
  version_quote  quote used on the current_version line (INI)
"""

SYNTAXES = ["bumpver.toml", ".bumpver.toml", "pyproject.toml", "setup.cfg", "pycalver.toml"]
STRING_KEYS = ["commit_message", "tag_message", "tag_scope", "pre_commit_hook", "post_commit_hook"]
BOOL_KEYS = ["commit", "tag", "push"]
INI_TRUE = ["True", "true", "yes", "on", "1", "YES", "On", "TRUE"]
INI_FALSE = ["False", "false", "no", "off", "0", "NO", "Off", "anything-else"]


def toml_basic(s):
    out = ['"']
    for ch in s:
        o = ord(ch)
        if ch == "\\":
            out.append("\\\\")
        elif ch == '"':
            out.append('\\"')
        elif ch == "\n":
            out.append("\\n")
        elif ch == "\t":
            out.append("\\t")
        elif ch == "\r":
            out.append("\\r")
        elif o < 0x20 or o == 0x7f:
            out.append("\\u%04x" % o)
        else:
            out.append(ch)
    out.append('"')
    return "".join(out)


def toml_str(s, literal=False):
    if literal and "'" not in s and all(ord(ch) >= 0x20 and ord(ch) != 0x7f for ch in s):
        return "'" + s + "'"
    return toml_basic(s)


def toml_multiline(s):
    """Multi-line basic string: line feeds written as themselves."""
    body = toml_basic(s)[1:-1].replace("\\n", "\n")
    return '"""\n' + body + '"""'


def toml_key(k):
    """Quoted key; a literal (single-quoted) key when the name holds a backslash or double quote, because the
    toml 0.10 parser used by bumpver does not unescape basic-string *keys*."""
    if ("\\" in k or '"' in k) and "'" not in k and all(ord(ch) >= 0x20 for ch in k):
        return "'" + k + "'"
    return toml_basic(k)


def is_toml(syntax):
    return syntax.endswith(".toml")


def section_names(syntax, style):
    legacy = style.get("section") == "pycalver" or syntax == "pycalver.toml"
    base = "pycalver" if legacy else "bumpver"
    if syntax == "pyproject.toml" and not legacy:
        return "tool.bumpver", "tool.bumpver.file_patterns"
    if is_toml(syntax):
        return base, base + ".file_patterns"
    return base, base + ":file_patterns"


def render_config(cfg, syntax, style=None):
    """-> (text, version_line_index, version_line_prefix, version_line_suffix)"""
    style = style or {}
    sec, fsec = section_names(syntax, style)
    lines = []
    pre = style.get("preamble")
    if pre:
        lines.extend(pre.split("\n"))
    lines.append("[%s]" % sec)
    vline_idx = len(lines)
    if is_toml(syntax):
        vq = '"'
        eq = style.get("toml_eq", " = ")
        veq = style.get("version_eq", eq)
        lines.append("current_version%s%s%s%s" % (veq, vq, cfg["current_version"], vq))
        vprefix, vsuffix = "current_version" + veq + vq, vq
        lines.append("version_pattern%s%s" % (eq, toml_str(cfg["version_pattern"], style.get("toml_literal"))))
        for key in STRING_KEYS:
            if cfg.get(key) is not None:
                # (the toml 0.10 parser drops blank lines at the start and blanks at line ends of multi-line strings, and loses line
                # feeds next to quote characters; such
                # values are written as one-line strings)
                if style.get("toml_multiline") and "\n" in cfg[key] and all(
                        ln and ln == ln.strip() and not any(ch in ln for ch in "'\"\\") for ln in cfg[key].split("\n")):
                    lines.append("%s%s%s" % (key, eq, toml_multiline(cfg[key])))
                else:
                    lines.append("%s%s%s" % (key, eq, toml_str(cfg[key], style.get("toml_literal"))))
        for key in BOOL_KEYS:
            if cfg.get(key) is not None:
                lines.append("%s%s%s%s" % (key, eq, "true" if cfg[key] else "false",
                                           "  # " + style["comment"] if style.get("comment") and style.get("trailing_comments") else ""))
        if style.get("comment"):
            lines.append("# " + style["comment"])
        lines.append("")
        if cfg.get("file_patterns") or not style.get("omit_empty_table"):
            lines.append("[%s]" % fsec)
        for key, pats in cfg.get("file_patterns", []):
            if len(pats) == 1 and style.get("toml_inline", True):
                lines.append("%s = [%s]" % (toml_key(key), toml_str(pats[0], style.get("toml_literal"))))
            else:
                lines.append("%s = [" % toml_key(key))
                for p in pats:
                    lines.append("    %s," % toml_str(p, style.get("toml_literal")))
                lines.append("]")
    else:
        q = style.get("quote", '"')
        vq = style.get("version_quote", q)
        eq = style.get("ini_delim", " = ")
        veq = style.get("version_eq", eq)
        lines.append("current_version%s%s%s%s" % (veq, vq, cfg["current_version"], vq))
        vprefix, vsuffix = "current_version" + veq + vq, vq
        lines.append("version_pattern%s%s%s%s" % (eq, q, cfg["version_pattern"], q))
        for key in STRING_KEYS:
            if cfg.get(key) is not None:
                lines.append("%s%s%s%s%s" % (key, eq, q, cfg[key], q))
        for key in BOOL_KEYS:
            if cfg.get(key) is not None:
                lines.append("%s%s%s" % (key, eq, style.get("bool_true", "True") if cfg[key] else style.get("bool_false", "False")))
        if style.get("comment"):
            lines.append("# " + style["comment"])
        lines.append("")
        if cfg.get("file_patterns") or not style.get("omit_empty_table"):
            lines.append("[%s]" % fsec)
        for key, pats in cfg.get("file_patterns", []):
            if style.get("ini_inline") and len(pats) == 1:
                lines.append("%s = %s" % (key, pats[0]))
                continue
            lines.append("%s =" % key)
            for p in pats:
                lines.append("    %s" % p)
    lines.append("")
    return lines, vline_idx, vprefix, vsuffix


def ini_expressible_pattern(p):
    """Can this search pattern be written on an indented INI continuation line and survive?"""
    if not p or p != p.strip():
        return False
    if p[0] in "#;":
        return False
    if any(ch in p for ch in "\n\r"):
        return False
    return True


def ini_expressible_key(k):
    if not k or k != k.strip():
        return False
    if any(ch in k for ch in "=:\n\r#;[]"):
        return False
    return True


def ini_expressible_string(s):
    """INI values are stripped of blanks and quotes at both ends by design of the syntax."""
    if s is None:
        return True
    if any(ch in s for ch in "\n\r"):
        return False
    if s != s.strip("'\" "):
        return False
    return s == "" or True
