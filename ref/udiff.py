"""Strict unified-diff parser/applier driven by hunk counts.  Never imports bumpver."""
import re

_HUNK = re.compile(r"^@@ -(\d+)(?:,(\d+))? \+(\d+)(?:,(\d+))? @@")


class DiffError(Exception):
    pass


def parse(text):
    """-> list of (path, [hunk]) where hunk = (old_start, old_len, new_start, new_len, [(tag, line)])"""
    lines = text.split("\n")
    if lines and lines[-1] == "":
        lines.pop()
    files = []
    i = 0
    n = len(lines)
    while i < n:
        line = lines[i]
        if line == "":
            i += 1
            continue
        if not line.startswith("--- "):
            raise DiffError("expected '--- path' at diff line %d, got %r" % (i + 1, line[:60]))
        old_path = line[4:]
        if i + 1 >= n or not lines[i + 1].startswith("+++ "):
            raise DiffError("expected '+++ path' after diff line %d" % (i + 1))
        new_path = lines[i + 1][4:]
        if old_path != new_path:
            raise DiffError("from/to paths differ: %r vs %r" % (old_path, new_path))
        i += 2
        hunks = []
        while i < n and lines[i].startswith("@@ "):
            m = _HUNK.match(lines[i])
            if not m:
                raise DiffError("malformed hunk header %r" % lines[i])
            a = int(m.group(1))
            b = 1 if m.group(2) is None else int(m.group(2))
            c = int(m.group(3))
            d = 1 if m.group(4) is None else int(m.group(4))
            i += 1
            body = []
            old_seen = new_seen = 0
            while old_seen < b or new_seen < d:
                if i >= n:
                    raise DiffError("hunk truncated in %r" % old_path)
                ln = lines[i]
                tag = ln[:1]
                if tag == " ":
                    old_seen += 1
                    new_seen += 1
                elif tag == "-":
                    old_seen += 1
                elif tag == "+":
                    new_seen += 1
                else:
                    raise DiffError("bad hunk line %r in %r" % (ln[:60], old_path))
                body.append((tag, ln[1:]))
                i += 1
            if old_seen != b or new_seen != d:
                raise DiffError("hunk counts inconsistent in %r" % old_path)
            hunks.append((a, b, c, d, body))
        if not hunks:
            raise DiffError("file header without hunks for %r" % old_path)
        files.append((old_path, hunks))
    return files


def apply(old_lines, hunks):
    out = []
    pos = 0  # index into old_lines
    for a, b, c, d, body in hunks:
        start = a - 1 if b > 0 else a
        if start < pos:
            raise DiffError("overlapping hunks")
        out.extend(old_lines[pos:start])
        pos = start
        if len(out) != (c - 1 if d > 0 else c):
            raise DiffError("new-side start %d does not match position %d" % (c, len(out) + 1))
        for tag, text in body:
            if tag in (" ", "-"):
                if pos >= len(old_lines) or old_lines[pos] != text:
                    raise DiffError("context/removed line does not match the file at line %d: %r vs %r" % (
                        pos + 1, text[:50], (old_lines[pos] if pos < len(old_lines) else None)))
                pos += 1
            if tag in (" ", "+"):
                out.append(text)
    out.extend(old_lines[pos:])
    return out
