# This file is dual licensed under the terms of the Apache License, Version
# 2.0, and the BSD License. See the LICENSE file in the root of this repository
# for complete details.
"""
.. testsetup::

    from packaging.version import parse, normalize_pre, Version, _cmpkey
"""

from __future__ import annotations

import re
import sys
import typing
from typing import (
    Any,
    Callable,
    Literal,
    NamedTuple,
    SupportsInt,
    TypedDict,
    Union,
)

if typing.TYPE_CHECKING:
    from typing_extensions import Self, Unpack

if sys.version_info >= (3, 13):  # pragma: no cover
    from warnings import deprecated as _deprecated
elif typing.TYPE_CHECKING:
    from typing_extensions import deprecated as _deprecated
else:  # pragma: no cover
    import functools
    import warnings

    def _deprecated(message: str) -> object:
        def decorator(func: Callable[[...], object]) -> object:
            @functools.wraps(func)
            def wrapper(*args: object, **kwargs: object) -> object:
                warnings.warn(
                    message,
                    category=DeprecationWarning,
                    stacklevel=2,
                )
                return func(*args, **kwargs)

            return wrapper

        return decorator


_LETTER_NORMALIZATION = {
    "alpha": "a",
    "beta": "b",
    "c": "rc",
    "pre": "rc",
    "preview": "rc",
    "rev": "post",
    "r": "post",
}

__all__ = ["VERSION_PATTERN", "InvalidVersion", "Version", "normalize_pre", "parse"]


def __dir__() -> list[str]:
    return __all__


LocalType = tuple[Union[int, str], ...]

CmpLocalType = tuple[tuple[int, str], ...]
CmpSuffix = tuple[int, int, int, int, int, int]
CmpKey = Union[
    tuple[int, tuple[int, ...], CmpSuffix],
    tuple[int, tuple[int, ...], CmpSuffix, CmpLocalType],
]
VersionComparisonMethod = Callable[[CmpKey, CmpKey], bool]


class _VersionReplace(TypedDict, total=False):
    epoch: int | None
    release: tuple[int, ...] | None
    pre: tuple[str, int] | None
    post: int | None
    dev: int | None
    local: str | None


def normalize_pre(letter: str, /) -> str:
    """Normalize the pre-release segment of a version string.

    Returns a lowercase version of the string if not a known pre-release
    identifier.

    >>> normalize_pre('alpha')
    'a'
    >>> normalize_pre('BETA')
    'b'
    >>> normalize_pre('rc')
    'rc'

    :param letter:

    .. versionadded:: 26.1
    """
    letter = letter.lower()
    return _LETTER_NORMALIZATION.get(letter, letter)


def parse(version: str) -> Version:
    """Parse the given version string.

    This is identical to the :class:`Version` constructor.

    >>> parse('1.0.dev1')
    <Version('1.0.dev1')>

    :param version: The version string to parse.
    :raises InvalidVersion: When the version string is not a valid version.
    """
    return Version(version)


class InvalidVersion(ValueError):
    """Raised when a version string is not a valid version.

    >>> Version("invalid")
    Traceback (most recent call last):
        ...
    packaging.version.InvalidVersion: Invalid version: 'invalid'
    """


class _BaseVersion:
    __slots__ = ()

    # This can also be a normal member (see the packaging_legacy package);
    # we are just requiring it to be readable. Actually defining a property
    # has runtime effect on subclasses, so it's typing only.
    if typing.TYPE_CHECKING:

        @property
        def _key(self) -> tuple[Any, ...]: ...

    def __hash__(self) -> int:
        return hash(self._key)

    # Please keep the duplicated `isinstance` check
    # in the six comparisons hereunder
    # unless you find a way to avoid adding overhead function calls.
    def __lt__(self, other: _BaseVersion) -> bool:
        if not isinstance(other, _BaseVersion):
            return NotImplemented

        return self._key < other._key

    def __le__(self, other: _BaseVersion) -> bool:
        if not isinstance(other, _BaseVersion):
            return NotImplemented

        return self._key <= other._key

    def __eq__(self, other: object) -> bool:
        if not isinstance(other, _BaseVersion):
            return NotImplemented

        return self._key == other._key

    def __ge__(self, other: _BaseVersion) -> bool:
        if not isinstance(other, _BaseVersion):
            return NotImplemented

        return self._key >= other._key

    def __gt__(self, other: _BaseVersion) -> bool:
        if not isinstance(other, _BaseVersion):
            return NotImplemented

        return self._key > other._key

    def __ne__(self, other: object) -> bool:
        if not isinstance(other, _BaseVersion):
            return NotImplemented

        return self._key != other._key


# Deliberately not anchored to the start and end of the string, to make it
# easier for 3rd party code to reuse

# Note that ++ doesn't behave identically on CPython and PyPy, so not using it here
_VERSION_PATTERN = r"""
    v?+                                                   # optional leading v
    (?a:
        (?:(?P<epoch>[0-9]+)!)?+                          # epoch
        (?P<release>[0-9]+(?:\.[0-9]+)*+)                 # release segment
        (?P<pre>                                          # pre-release
            [._-]?+
            (?P<pre_l>alpha|a|beta|b|preview|pre|c|rc)
            [._-]?+
            (?P<pre_n>[0-9]+)?
        )?+
        (?P<post>                                         # post release
            (?:-(?P<post_n1>[0-9]+))
            |
            (?:
                [._-]?
                (?P<post_l>post|rev|r)
                [._-]?
                (?P<post_n2>[0-9]+)?
            )
        )?+
        (?P<dev>                                          # dev release
            [._-]?+
            (?P<dev_l>dev)
            [._-]?+
            (?P<dev_n>[0-9]+)?
        )?+
    )
    (?a:\+
        (?P<local>                                        # local version
            [a-z0-9]+
            (?:[._-][a-z0-9]+)*+
        )
    )?+
"""

_VERSION_PATTERN_OLD = _VERSION_PATTERN.replace("*+", "*").replace("?+", "?")

# Possessive qualifiers were added in Python 3.11.
# CPython 3.11.0-3.11.4 had a bug: https://github.com/python/cpython/pull/107795
# Older PyPy also had a bug.
VERSION_PATTERN = (
    _VERSION_PATTERN_OLD
    if (sys.implementation.name == "cpython" and sys.version_info < (3, 11, 5))
    or (sys.implementation.name == "pypy" and sys.version_info < (3, 11, 13))
    or sys.version_info < (3, 11)
    else _VERSION_PATTERN
)
"""
A string containing the regular expression used to match a valid version.

The pattern is not anchored at either end, and is intended for embedding in larger
expressions (for example, matching a version number as part of a file name). The
regular expression should be compiled with the ``re.VERBOSE`` and ``re.IGNORECASE``
flags set.

.. versionchanged:: 26.0

   The regex now uses possessive qualifiers on Python 3.11 if they are
   supported (CPython 3.11.5+, PyPy 3.11.13+).

:meta hide-value:
"""


# Validation pattern for local version in replace()
_LOCAL_PATTERN = re.compile(r"[a-z0-9]+(?:[._-][a-z0-9]+)*", re.IGNORECASE | re.ASCII)

# Fast path: If a version has only digits and dots then we
# can skip the regex and parse it as a release segment
_SIMPLE_VERSION_INDICATORS = frozenset(".0123456789")


def _validate_epoch(value: object, /) -> int:
    epoch = value or 0
    if isinstance(epoch, int) and epoch >= 0:
        return epoch
    msg = f"epoch must be non-negative integer, got {epoch}"
    raise InvalidVersion(msg)


def _validate_release(value: object, /) -> tuple[int, ...]:
    release = (0,) if value is None else value
    if (
        isinstance(release, tuple)
        and len(release) > 0
        and all(isinstance(i, int) and i >= 0 for i in release)
    ):
        return release
    msg = f"release must be a non-empty tuple of non-negative integers, got {release}"
    raise InvalidVersion(msg)


def _validate_pre(value: object, /) -> tuple[Literal["a", "b", "rc"], int] | None:
    if value is None:
        return value
    if isinstance(value, tuple) and len(value) == 2:
        letter, number = value
        # The letter must be a string before it can be normalized.
        if (
            isinstance(letter, str)
            and (normalized := normalize_pre(letter)) in {"a", "b", "rc"}
            and isinstance(number, int)
            and number >= 0
        ):
            # type checkers can't infer the Literal type here on letter
            return (normalized, number)  # type: ignore[return-value]
    msg = f"pre must be a tuple of ('a'|'b'|'rc', non-negative int), got {value}"
    raise InvalidVersion(msg)


def _validate_post(value: object, /) -> tuple[Literal["post"], int] | None:
    if value is None:
        return value
    if isinstance(value, int) and value >= 0:
        return ("post", value)
    msg = f"post must be non-negative integer, got {value}"
    raise InvalidVersion(msg)


def _validate_dev(value: object, /) -> tuple[Literal["dev"], int] | None:
    if value is None:
        return value
    if isinstance(value, int) and value >= 0:
        return ("dev", value)
    msg = f"dev must be non-negative integer, got {value}"
    raise InvalidVersion(msg)


def _validate_local(value: object, /) -> LocalType | None:
    if value is None:
        return value
    if isinstance(value, str) and _LOCAL_PATTERN.fullmatch(value):
        return _parse_local_version(value)
    msg = f"local must be a valid version string, got {value!r}"
    raise InvalidVersion(msg)


# Backward compatibility for internals before 26.0. Do not use.
class _Version(NamedTuple):
    epoch: int
    release: tuple[int, ...]
    dev: tuple[Literal["dev"], int] | None
    pre: tuple[Literal["a", "b", "rc"], int] | None
    post: tuple[Literal["post"], int] | None
    local: LocalType | None


class Version(_BaseVersion):
    """This class abstracts handling of a project's versions.

    A :class:`Version` instance is comparison aware and can be compared and
    sorted using the standard Python interfaces.

    >>> v1 = Version("1.0a5")
    >>> v2 = Version("1.0")
    >>> v1
    <Version('1.0a5')>
    >>> v2
    <Version('1.0')>
    >>> v1 < v2
    True
    >>> v1 == v2
    False
    >>> v1 > v2
    False
    >>> v1 >= v2
    False
    >>> v1 <= v2
    True

    :class:`Version` is immutable; use :meth:`__replace__` to change
    part of a version.

    Instances are safe to serialize with :mod:`pickle`. They use a stable
    format so the same pickle can be loaded in future packaging releases.

    .. versionchanged:: 26.2

        Added a stable pickle format. Pickles created with packaging 26.2+ can
        be unpickled with future releases.  Backward compatibility with pickles
        from packaging < 26.2 is supported but may be removed in a future
        release.
    """

    __slots__ = (
        "_dev",
        "_epoch",
        "_hash_cache",
        "_key_cache",
        "_local",
        "_post",
        "_pre",
        "_release",
    )
    __match_args__ = ("_str",)
    """
    Pattern matching is supported on Python 3.10+.

    .. versionadded:: 26.0

    :meta hide-value:
    """

    _regex = re.compile(r"\s*" + VERSION_PATTERN + r"\s*", re.VERBOSE | re.IGNORECASE)

    _epoch: int
    _release: tuple[int, ...]
    _dev: tuple[Literal["dev"], int] | None
    _pre: tuple[Literal["a", "b", "rc"], int] | None
    _post: tuple[Literal["post"], int] | None
    _local: LocalType | None

    _hash_cache: int | None
    _key_cache: CmpKey | None

    def __init__(self, version: str) -> None:
        """Initialize a Version object.

        :param version:
            The string representation of a version which will be parsed and normalized
            before use.
        :raises InvalidVersion:
            If the ``version`` does not conform to PEP 440 in any way then this
            exception will be raised.
        """
        try:
            is_simple = _SIMPLE_VERSION_INDICATORS.issuperset(version)
        except TypeError:
            raise InvalidVersion(f"Invalid version: {version!r}") from None

        if is_simple:
            try:
                self._release = tuple(map(int, version.split(".")))
            except AttributeError:
                raise InvalidVersion(f"Invalid version: {version!r}") from None
            except ValueError:
                # Empty parts (from "1..2", ".1", etc.) are invalid versions.
                # Any other ValueError (e.g. int str-digits limit) should
                # propagate to the caller.
                if "" in version.split("."):
                    raise InvalidVersion(f"Invalid version: {version!r}") from None
                # TODO: remove "no cover" when Python 3.9 is dropped.
                raise  # pragma: no cover

            self._epoch = 0
            self._pre = None
            self._post = None
            self._dev = None
            self._local = None
            self._key_cache = None
            self._hash_cache = None
            return

        # Validate the version and parse it into pieces
        try:
            match = self._regex.fullmatch(version)
        except TypeError:
            raise InvalidVersion(f"Invalid version: {version!r}") from None
        if not match:
            raise InvalidVersion(f"Invalid version: {version!r}")
        self._epoch = int(match.group("epoch")) if match.group("epoch") else 0
        self._release = tuple(map(int, match.group("release").split(".")))
        # We can type ignore the assignments below because the regex guarantees
        # the correct strings
        self._pre = _parse_letter_version(match.group("pre_l"), match.group("pre_n"))  # type: ignore[assignment]
        self._post = _parse_letter_version(  # type: ignore[assignment]
            match.group("post_l"), match.group("post_n1") or match.group("post_n2")
        )
        self._dev = _parse_letter_version(match.group("dev_l"), match.group("dev_n"))  # type: ignore[assignment]
        self._local = _parse_local_version(match.group("local"))

        # Key which will be used for sorting
        self._key_cache = None
        self._hash_cache = None

    @classmethod
    def from_parts(
        cls,
        *,
        epoch: int = 0,
        release: tuple[int, ...],
        pre: tuple[str, int] | None = None,
        post: int | None = None,
        dev: int | None = None,
        local: str | None = None,
    ) -> Self:
        """
        Return a new version composed of the various parts.

        This allows you to build a version without going though a string and
        running a regular expression. It normalizes pre-release strings. The
        ``release=`` keyword argument is required.

        >>> Version.from_parts(release=(1,2,3))
        <Version('1.2.3')>
        >>> Version.from_parts(release=(0,1,0), pre=("b", 1))
        <Version('0.1.0b1')>

        :param epoch:
        :param release: This version tuple is required

        .. versionadded:: 26.1
        """
        _epoch = _validate_epoch(epoch)
        _release = _validate_release(release)
        _pre = _validate_pre(pre) if pre is not None else None
        _post = _validate_post(post) if post is not None else None
        _dev = _validate_dev(dev) if dev is not None else None
        _local = _validate_local(local) if local is not None else None

        new_version = cls.__new__(cls)
        new_version._key_cache = None
        new_version._hash_cache = None
        new_version._epoch = _epoch
        new_version._release = _release
        new_version._pre = _pre
        new_version._post = _post
        new_version._dev = _dev
        new_version._local = _local

        return new_version

    def __replace__(self, **kwargs: Unpack[_VersionReplace]) -> Self:
        """
        __replace__(*, epoch=..., release=..., pre=..., post=..., dev=..., local=...)

        Return a new version with parts replaced.

        This returns a new version (unless no parts were changed). The
        pre-release is normalized. Setting a value to ``None`` clears it.

        >>> v = Version("1.2.3")
        >>> v.__replace__(pre=("a", 1))
        <Version('1.2.3a1')>

        :param int | None epoch:
        :param tuple[int, ...] | None release:
        :param tuple[str, int] | None pre:
        :param int | None post:
        :param int | None dev:
        :param str | None local:

        .. versionadded:: 26.0
        .. versionchanged:: 26.1

           The pre-release portion is now normalized.
        """
        epoch = _validate_epoch(kwargs["epoch"]) if "epoch" in kwargs else self._epoch
        release = (
            _validate_release(kwargs["release"])
            if "release" in kwargs
            else self._release
        )
        pre = _validate_pre(kwargs["pre"]) if "pre" in kwargs else self._pre
        post = _validate_post(kwargs["post"]) if "post" in kwargs else self._post
        dev = _validate_dev(kwargs["dev"]) if "dev" in kwargs else self._dev
        local = _validate_local(kwargs["local"]) if "local" in kwargs else self._local

        if (
            epoch == self._epoch
            and release == self._release
            and pre == self._pre
            and post == self._post
            and dev == self._dev
            and local == self._local
        ):
            return self

        new_version = self.__class__.__new__(self.__class__)
        new_version._key_cache = None
        new_version._hash_cache = None
        new_version._epoch = epoch
        new_version._release = release
        new_version._pre = pre
        new_version._post = post
        new_version._dev = dev
        new_version._local = local

        return new_version

    @property
    def _key(self) -> CmpKey:
        if self._key_cache is None:
            self._key_cache = _cmpkey(
                self._epoch,
                self._release,
                self._pre,
                self._post,
                self._dev,
                self._local,
            )
        return self._key_cache

    # __hash__ must be defined when __eq__ is overridden,
    # otherwise Python sets __hash__ to None.
    def __hash__(self) -> int:
        if (cached_hash := self._hash_cache) is not None:
            return cached_hash

        if (key := self._key_cache) is None:
            self._key_cache = key = _cmpkey(
                self._epoch,
                self._release,
                self._pre,
                self._post,
                self._dev,
                self._local,
            )
        self._hash_cache = cached_hash = hash(key)
        return cached_hash

    # Override comparison methods to use direct _key_cache access
    # This is faster than property access, especially before Python 3.12
    def __lt__(self, other: _BaseVersion) -> bool:
        if isinstance(other, Version):
            if self._key_cache is None:
                self._key_cache = _cmpkey(
                    self._epoch,
                    self._release,
                    self._pre,
                    self._post,
                    self._dev,
                    self._local,
                )
            if other._key_cache is None:
                other._key_cache = _cmpkey(
                    other._epoch,
                    other._release,
                    other._pre,
                    other._post,
                    other._dev,
                    other._local,
                )
            return self._key_cache < other._key_cache

        if not isinstance(other, _BaseVersion):
            return NotImplemented

        return super().__lt__(other)

    def __le__(self, other: _BaseVersion) -> bool:
        if isinstance(other, Version):
            if self._key_cache is None:
                self._key_cache = _cmpkey(
                    self._epoch,
                    self._release,
                    self._pre,
                    self._post,
                    self._dev,
                    self._local,
                )
            if other._key_cache is None:
                other._key_cache = _cmpkey(
                    other._epoch,
                    other._release,
                    other._pre,
                    other._post,
                    other._dev,
                    other._local,
                )
            return self._key_cache <= other._key_cache

        if not isinstance(other, _BaseVersion):
            return NotImplemented

        return super().__le__(other)

    def __eq__(self, other: object) -> bool:
        if isinstance(other, Version):
            if self._key_cache is None:
                self._key_cache = _cmpkey(
                    self._epoch,
                    self._release,
                    self._pre,
                    self._post,
                    self._dev,
                    self._local,
                )
            if other._key_cache is None:
                other._key_cache = _cmpkey(
                    other._epoch,
                    other._release,
                    other._pre,
                    other._post,
                    other._dev,
                    other._local,
                )
            return self._key_cache == other._key_cache

        if not isinstance(other, _BaseVersion):
            return NotImplemented

        return super().__eq__(other)

    def __ge__(self, other: _BaseVersion) -> bool:
        if isinstance(other, Version):
            if self._key_cache is None:
                self._key_cache = _cmpkey(
                    self._epoch,
                    self._release,
                    self._pre,
                    self._post,
                    self._dev,
                    self._local,
                )
            if other._key_cache is None:
                other._key_cache = _cmpkey(
                    other._epoch,
                    other._release,
                    other._pre,
                    other._post,
                    other._dev,
                    other._local,
                )
            return self._key_cache >= other._key_cache

        if not isinstance(other, _BaseVersion):
            return NotImplemented

        return super().__ge__(other)

    def __gt__(self, other: _BaseVersion) -> bool:
        if isinstance(other, Version):
            if self._key_cache is None:
                self._key_cache = _cmpkey(
                    self._epoch,
                    self._release,
                    self._pre,
                    self._post,
                    self._dev,
                    self._local,
                )
            if other._key_cache is None:
                other._key_cache = _cmpkey(
                    other._epoch,
                    other._release,
                    other._pre,
                    other._post,
                    other._dev,
                    other._local,
                )
            return self._key_cache > other._key_cache

        if not isinstance(other, _BaseVersion):
            return NotImplemented

        return super().__gt__(other)

    def __ne__(self, other: object) -> bool:
        if isinstance(other, Version):
            if self._key_cache is None:
                self._key_cache = _cmpkey(
                    self._epoch,
                    self._release,
                    self._pre,
                    self._post,
                    self._dev,
                    self._local,
                )
            if other._key_cache is None:
                other._key_cache = _cmpkey(
                    other._epoch,
                    other._release,
                    other._pre,
                    other._post,
                    other._dev,
                    other._local,
                )
            return self._key_cache != other._key_cache

        if not isinstance(other, _BaseVersion):
            return NotImplemented

        return super().__ne__(other)

    def __getstate__(
        self,
    ) -> tuple[
        int,
        tuple[int, ...],
        tuple[str, int] | None,
        tuple[str, int] | None,
        tuple[str, int] | None,
        LocalType | None,
    ]:
        # Return state as a 6-item tuple for compactness:
        #   (epoch, release, pre, post, dev, local)
        # Cache members are excluded and will be recomputed on demand
        return (
            self._epoch,
            self._release,
            self._pre,
            self._post,
            self._dev,
            self._local,
        )

    def __setstate__(self, state: object) -> None:
        # Always discard cached values — they may contain stale references
        # (e.g. packaging._structures.InfinityType from pre-26.1 pickles)
        # and will be recomputed on demand from the core fields above.
        self._key_cache = None
        self._hash_cache = None

        if isinstance(state, tuple):
            if len(state) == 6:
                # New format (26.2+): (epoch, release, pre, post, dev, local)
                (
                    self._epoch,
                    self._release,
                    self._pre,
                    self._post,
                    self._dev,
                    self._local,
                ) = state
                return
            if len(state) == 2:
                # Format (packaging 26.0-26.1): (None, {slot: value}).
                _, slot_dict = state
                if isinstance(slot_dict, dict):
                    self._epoch = slot_dict["_epoch"]
                    self._release = slot_dict["_release"]
                    self._pre = slot_dict.get("_pre")
                    self._post = slot_dict.get("_post")
                    self._dev = slot_dict.get("_dev")
                    self._local = slot_dict.get("_local")
                    return
        if isinstance(state, dict):
            # Old format (packaging <= 25.x, no __slots__): state is a plain
            # dict with "_version" (_Version NamedTuple) and "_key" entries.
            version_nt = state.get("_version")
            if version_nt is not None:
                self._epoch = version_nt.epoch
                self._release = version_nt.release
                self._pre = version_nt.pre
                self._post = version_nt.post
                self._dev = version_nt.dev
                self._local = version_nt.local
                return

        raise TypeError(f"Cannot restore Version from {state!r}")

    @property
    @_deprecated("Version._version is private and will be removed soon")
    def _version(self) -> _Version:
        return _Version(
            self._epoch, self._release, self._dev, self._pre, self._post, self._local
        )

    @_version.setter
    @_deprecated("Version._version is private and will be removed soon")
    def _version(self, value: _Version) -> None:
        self._epoch = value.epoch
        self._release = value.release
        self._dev = value.dev
        self._pre = value.pre
        self._post = value.post
        self._local = value.local
        self._key_cache = None
        self._hash_cache = None

    def __repr__(self) -> str:
        """A representation of the Version that shows all internal state.

        >>> Version('1.0.0')
        <Version('1.0.0')>
        """
        return f"<{self.__class__.__name__}({str(self)!r})>"

    def __str__(self) -> str:
        """A string representation of the version that can be round-tripped.

        >>> str(Version("1.0a5"))
        '1.0a5'
        """
        # This is a hot function, so not calling self.base_version
        version = ".".join(map(str, self.release))

        # Epoch
        if self.epoch:
            version = f"{self.epoch}!{version}"

        # Pre-release
        if self.pre is not None:
            version += "".join(map(str, self.pre))

        # Post-release
        if self.post is not None:
            version += f".post{self.post}"

        # Development release
        if self.dev is not None:
            version += f".dev{self.dev}"

        # Local version segment
        if self.local is not None:
            version += f"+{self.local}"

        return version

    @property
    def _str(self) -> str:
        """Internal property for match_args"""
        return str(self)

    @property
    def epoch(self) -> int:
        """The epoch of the version.

        >>> Version("2.0.0").epoch
        0
        >>> Version("1!2.0.0").epoch
        1
        """
        return self._epoch

    @property
    def release(self) -> tuple[int, ...]:
        """The components of the "release" segment of the version.

        >>> Version("1.2.3").release
        (1, 2, 3)
        >>> Version("2.0.0").release
        (2, 0, 0)
        >>> Version("1!2.0.0.post0").release
        (2, 0, 0)

        Includes trailing zeroes but not the epoch or any pre-release / development /
        post-release suffixes.
        """
        return self._release

    @property
    def pre(self) -> tuple[Literal["a", "b", "rc"], int] | None:
        """The pre-release segment of the version.

        >>> print(Version("1.2.3").pre)
        None
        >>> Version("1.2.3a1").pre
        ('a', 1)
        >>> Version("1.2.3b1").pre
        ('b', 1)
        >>> Version("1.2.3rc1").pre
        ('rc', 1)
        """
        return self._pre

    @property
    def post(self) -> int | None:
        """The post-release number of the version.

        >>> print(Version("1.2.3").post)
        None
        >>> Version("1.2.3.post1").post
        1
        """
        return self._post[1] if self._post else None

    @property
    def dev(self) -> int | None:
        """The development number of the version.

        >>> print(Version("1.2.3").dev)
        None
        >>> Version("1.2.3.dev1").dev
        1
        """
        return self._dev[1] if self._dev else None

    @property
    def local(self) -> str | None:
        """The local version segment of the version.

        >>> print(Version("1.2.3").local)
        None
        >>> Version("1.2.3+abc").local
        'abc'
        """
        if self._local:
            return ".".join(str(x) for x in self._local)
        else:
            return None

    @property
    def public(self) -> str:
        """The public portion of the version.

        This returns a string. If you want a :class:`Version` again and care
        about performance, use ``v.__replace__(local=None)`` instead.

        >>> Version("1.2.3").public
        '1.2.3'
        >>> Version("1.2.3+abc").public
        '1.2.3'
        >>> Version("1!1.2.3dev1+abc").public
        '1!1.2.3.dev1'
        """
        return str(self).split("+", 1)[0]

    @property
    def base_version(self) -> str:
        """The "base version" of the version.

        This returns a string. If you want a :class:`Version` again and care
        about performance, use
        ``v.__replace__(pre=None, post=None, dev=None, local=None)`` instead.

        >>> Version("1.2.3").base_version
        '1.2.3'
        >>> Version("1.2.3+abc").base_version
        '1.2.3'
        >>> Version("1!1.2.3dev1+abc").base_version
        '1!1.2.3'

        The "base version" is the public version of the project without any pre or post
        release markers.
        """
        release_segment = ".".join(map(str, self.release))
        return f"{self.epoch}!{release_segment}" if self.epoch else release_segment

    @property
    def is_prerelease(self) -> bool:
        """Whether this version is a pre-release.

        >>> Version("1.2.3").is_prerelease
        False
        >>> Version("1.2.3a1").is_prerelease
        True
        >>> Version("1.2.3b1").is_prerelease
        True
        >>> Version("1.2.3rc1").is_prerelease
        True
        >>> Version("1.2.3dev1").is_prerelease
        True
        """
        return self.dev is not None or self.pre is not None

    @property
    def is_postrelease(self) -> bool:
        """Whether this version is a post-release.

        >>> Version("1.2.3").is_postrelease
        False
        >>> Version("1.2.3.post1").is_postrelease
        True
        """
        return self.post is not None

    @property
    def is_devrelease(self) -> bool:
        """Whether this version is a development release.

        >>> Version("1.2.3").is_devrelease
        False
        >>> Version("1.2.3.dev1").is_devrelease
        True
        """
        return self.dev is not None

    @property
    def major(self) -> int:
        """The first item of :attr:`release` or ``0`` if unavailable.

        >>> Version("1.2.3").major
        1

        .. versionadded:: 20.0
        """
        return self.release[0] if len(self.release) >= 1 else 0

    @property
    def minor(self) -> int:
        """The second item of :attr:`release` or ``0`` if unavailable.

        >>> Version("1.2.3").minor
        2
        >>> Version("1").minor
        0

        .. versionadded:: 20.0
        """
        return self.release[1] if len(self.release) >= 2 else 0

    @property
    def micro(self) -> int:
        """The third item of :attr:`release` or ``0`` if unavailable.

        >>> Version("1.2.3").micro
        3
        >>> Version("1").micro
        0

        .. versionadded:: 20.0
        """
        return self.release[2] if len(self.release) >= 3 else 0


class _TrimmedRelease(Version):
    __slots__ = ()

    def __init__(self, version: str | Version) -> None:
        if isinstance(version, Version):
            self._epoch = version._epoch
            self._release = version._release
            self._dev = version._dev
            self._pre = version._pre
            self._post = version._post
            self._local = version._local
            self._key_cache = version._key_cache
            self._hash_cache = version._hash_cache
            return
        super().__init__(version)  # pragma: no cover

    @property
    def release(self) -> tuple[int, ...]:
        """
        Release segment without any trailing zeros.

        >>> _TrimmedRelease('1.0.0').release
        (1,)
        >>> _TrimmedRelease('0.0').release
        (0,)
        """
        # This leaves one 0.
        rel = super().release
        len_release = len(rel)
        i = len_release
        while i > 1 and rel[i - 1] == 0:
            i -= 1
        return rel if i == len_release else rel[:i]


def _parse_letter_version(
    letter: str | None, number: str | bytes | SupportsInt | None
) -> tuple[str, int] | None:
    if letter:
        # We normalize any letters to their lower case form
        letter = letter.lower()

        # We consider some words to be alternate spellings of other words and
        # in those cases we want to normalize the spellings to our preferred
        # spelling.
        letter = _LETTER_NORMALIZATION.get(letter, letter)

        # We consider there to be an implicit 0 in a pre-release if there is
        # not a numeral associated with it.
        return letter, int(number or 0)

    if number:
        # We assume if we are given a number, but we are not given a letter
        # then this is using the implicit post release syntax (e.g. 1.0-1)
        return "post", int(number)

    return None


_local_version_separators = re.compile(r"[\._-]")


def _parse_local_version(local: str | None) -> LocalType | None:
    """
    Takes a string like ``"abc.1.twelve"`` and turns it into
    ``("abc", 1, "twelve")``.
    """
    if local is not None:
        return tuple(
            part.lower() if not part.isdigit() else int(part)
            for part in _local_version_separators.split(local)
        )
    return None


# Sort ranks for pre-release: dev-only < a < b < rc < stable (no pre-release).
_PRE_RANK = {"a": 0, "b": 1, "rc": 2}
_PRE_RANK_DEV_ONLY = -1  # sorts before a(0)
_PRE_RANK_STABLE = 3  # sorts after rc(2)

# In local version segments, strings sort before ints per PEP 440.
_LOCAL_STR_RANK = -1  # sorts before all non-negative ints

# Pre-computed suffix for stable releases (no pre, post, or dev segments).
# See _cmpkey() for the suffix layout.
_STABLE_SUFFIX = (_PRE_RANK_STABLE, 0, 0, 0, 1, 0)


def _cmpkey(
    epoch: int,
    release: tuple[int, ...],
    pre: tuple[str, int] | None,
    post: tuple[str, int] | None,
    dev: tuple[str, int] | None,
    local: LocalType | None,
) -> CmpKey:
    """Build a comparison key for PEP 440 ordering.

    Returns ``(epoch, release, suffix)`` or
    ``(epoch, release, suffix, local)`` so that plain tuple
    comparison gives the correct order.

    Trailing zeros are stripped from the release so that ``1.0.0 == 1``.

    The suffix is a flat 6-int tuple that encodes pre/post/dev:
    ``(pre_rank, pre_n, post_rank, post_n, dev_rank, dev_n)``

    pre_rank: dev-only=-1, a=0, b=1, rc=2, no-pre=3
        Dev-only releases (no pre or post) get -1 so they sort before
        any alpha/beta/rc.  Releases without a pre-release tag get 3
        so they sort after rc.
    post_rank: no-post=0, post=1
        Releases without a post segment sort before those with one.
    dev_rank: dev=0, no-dev=1
        Releases without a dev segment sort after those with one.

    Local segments use ``(n, "")`` for ints and ``(-1, s)`` for strings,
    following PEP 440: strings sort before ints, strings compare
    lexicographically, ints compare numerically, and shorter segments
    sort before longer when prefixes match.  Versions without a local
    segment sort before those with one (3-tuple < 4-tuple).

    >>> _cmpkey(0, (1, 0, 0), None, None, None, None)
    (0, (1,), (3, 0, 0, 0, 1, 0))
    >>> _cmpkey(0, (1,), ("a", 1), None, None, None)
    (0, (1,), (0, 1, 0, 0, 1, 0))
    >>> _cmpkey(0, (1,), None, None, None, ("ubuntu", 1))
    (0, (1,), (3, 0, 0, 0, 1, 0), ((-1, 'ubuntu'), (1, '')))
    """
    # Strip trailing zeros: 1.0.0 compares equal to 1.
    len_release = len(release)
    i = len_release
    while i and release[i - 1] == 0:
        i -= 1
    trimmed = release if i == len_release else release[:i]

    # Fast path: stable release with no local segment.
    if pre is None and post is None and dev is None and local is None:
        return epoch, trimmed, _STABLE_SUFFIX

    if pre is None and post is None and dev is not None:
        # dev-only (e.g. 1.0.dev1) sorts before all pre-releases.
        pre_rank, pre_n = _PRE_RANK_DEV_ONLY, 0
    elif pre is None:
        pre_rank, pre_n = _PRE_RANK_STABLE, 0
    else:
        pre_rank, pre_n = _PRE_RANK[pre[0]], pre[1]

    post_rank = 0 if post is None else 1
    post_n = 0 if post is None else post[1]

    dev_rank = 1 if dev is None else 0
    dev_n = 0 if dev is None else dev[1]

    suffix = (pre_rank, pre_n, post_rank, post_n, dev_rank, dev_n)

    if local is None:
        return epoch, trimmed, suffix

    cmp_local: CmpLocalType = tuple(
        (seg, "") if isinstance(seg, int) else (_LOCAL_STR_RANK, seg) for seg in local
    )
    return epoch, trimmed, suffix, cmp_local
