"""Materialises an abstract project (gen.layouts) into a scratch directory and holds the template
model: expected bytes of every file for a given version state, and the slot/literal walker that
attributes a mismatch to C03 (stale / wrong slot), C04 (literal changed) or C15 (PEP 440 slot value)."""
import os
import re

from . import invoker, fakevcs, adapter
from ref import pattern as rp, pep440, configsyn, legacy


_PEP_SLOT = re.compile(r"(\d+)((?:\.\d+)*)(?:\.?(a|b|rc|post|dev)(\d+))?")


def pep_slot_ok(got, vtext):
    """C15: valid PEP 440, equal to the version, no 'v', no leading zeros after the first component,
    short tag form followed by its number."""
    if not pep440.is_pep440(got) or not pep440.is_pep440(vtext) or pep440.cmp(got, vtext) != 0:
        return False
    m = _PEP_SLOT.fullmatch(got)
    if not m:
        return False
    for comp in m.group(2).split(".")[1:]:
        if len(comp) > 1 and comp[0] == "0":
            return False
    return True


def region_text(region, vtree, state, vtext, clock_fields=None):
    """Expected text of a slot.  Calendar parts that the version itself does not carry come from the clock
    (README: `Copyright (c) 2018-YYYY` next to a SemVer version pattern)."""
    if region == "{version}":
        return vtext
    if region == "{pep440_version}":
        return pep440.canonical(vtext)
    if clock_fields:
        merged = dict(clock_fields)
        merged.update({k: v for k, v in state.items() if v is not None})
        state = merged
    when = version_date(state)
    if when is not None:
        # the version names a day: calendar parts that it does not spell out itself (the quarter of a day-of-year version,
        # the month of one) are those of that day
        merged = rp.cal_fields(when)
        merged.update({k: v for k, v in state.items() if v is not None})
        state = merged
    return rp.render(legacy.tokenize_any(region), state)


def version_date(state):
    import datetime as _dt
    y = state.get("year_y")
    try:
        if y is not None and state.get("doy") is not None:
            return _dt.date(y, 1, 1) + _dt.timedelta(days=state["doy"] - 1)
        if y is not None and state.get("month") is not None and state.get("dom") is not None:
            return _dt.date(y, state["month"], state["dom"])
    except (ValueError, OverflowError):
        return None
    return None


class World:
    def __init__(self, project):
        self.project = project
        self.vpattern = project["version_pattern"]
        self.vtree = legacy.tokenize_any(self.vpattern)
        self.syntax = project["syntax"]
        self.files = {}      # path -> list of {"segs", "end"}
        self.configured = []
        self.links = {}      # path of a symbolic link -> path of its target (both relative to the project directory)
        for f in project["files"]:
            self.files[f["path"]] = f["lines"]
            self.configured.append(f["path"])
            if f.get("symlink_to"):
                self.links[f["path"]] = f["symlink_to"]
        lines, vidx, vprefix, vsuffix = configsyn.render_config(project["cfg"], self.syntax, project["style"])
        end = {"lf": "\n", "crlf": "\r\n"}[project.get("cfg_regime", "lf")]
        tmpl = []
        for i, line in enumerate(lines):
            last = i == len(lines) - 1
            if i == vidx:
                segs = [vprefix, {"slot": "{version}", "pat": -1}, vsuffix]
            else:
                segs = [line]
            if last and line == "":
                continue
            tmpl.append({"segs": segs, "end": end})
        cg = project.get("cfg_glob")
        if cg:
            tmpl.append({"segs": [cg["prefix"], {"slot": "{version}", "pat": -2}], "end": end})
        self.files[self.syntax] = tmpl
        self.configured.append(self.syntax)
        self.dir = None
        self.repo = None
        self.pep_cache = {}
        self.clock = None     # date whose calendar fills parts the version pattern does not carry (set by campaigns)
        if project.get("clock_slots"):
            import datetime as _dt
            self.clock = _dt.date.fromisoformat(project["epoch"])

    # ---- expected content ---------------------------------------------------------------------
    start_clock_fields = None

    def clock_fields(self):
        return rp.cal_fields(self.clock) if self.clock is not None else None

    def pep_initial(self, vtext):
        """Starting content of a {pep440_version} slot: what bumpver itself accepts (see adapter)."""
        if vtext not in self.pep_cache:
            try:
                if legacy.is_legacy(self.vpattern):
                    raise ValueError("legacy")
                self.pep_cache[vtext] = adapter.pep440_slot_text(vtext, self.vpattern)
            except invoker.HarnessError:
                raise
            except Exception:
                # legacy patterns: the short tag directly follows the number ("2017.2dev0"), cf. README legacy section
                self.pep_cache[vtext] = pep440.canonical(vtext).replace(".dev", "dev").replace(".post", "post")
        return self.pep_cache[vtext]

    def expected_text(self, path, state, vtext, initial=False, override=None):
        """override: {(path, region): state} - render those slots from another (stale) state"""
        out = []
        for line in self.files[path]:
            for seg in line["segs"]:
                if isinstance(seg, str):
                    out.append(seg)
                elif override and (path, seg["slot"]) in override:
                    out.append(region_text(seg["slot"], self.vtree, override[(path, seg["slot"])], vtext, self.clock_fields()))
                elif initial and seg["slot"] == "{pep440_version}":
                    out.append(self.pep_initial(vtext))
                else:
                    out.append(region_text(seg["slot"], self.vtree, state, vtext, self.clock_fields()))
            out.append(line["end"])
        return "".join(out)

    def expected_tree(self, state, vtext, initial=False, override=None):
        tree = {}
        for path in self.files:
            tree[path] = self.expected_text(path, state, vtext, initial, override).encode("utf-8", "surrogateescape")
            if path in self.links:
                target = self.links[path]
                tree[target] = tree[path]
                tree[path + invoker.LINK_MARK] = os.path.relpath(target, os.path.dirname(path) or ".").encode("utf-8")
        for path, text in self.project.get("extra", {}).items():
            if path not in tree:
                tree[path] = text.encode("utf-8")
        return tree

    def materialise(self, state=None, vtext=None, override=None):
        state = state if state is not None else self.project["state"]
        vtext = vtext if vtext is not None else rp.render(self.vtree, state)
        self.dir = invoker.new_dir("w")
        invoker.write_tree(self.dir, self.expected_tree(state, vtext, initial=True, override=override))
        spec = self.project.get("vcs")
        if spec:
            os.mkdir(os.path.join(self.dir, ".git" if spec["personality"] == "git" else ".hg"))
            self.repo = fakevcs.FakeRepo(spec["personality"], remote=spec.get("remote", True))
            self.repo.baseline(self.dir)
            for t in spec.get("tags", []):
                self.repo.tags[t] = self.repo.head_commit()
        return self.dir

    # ---- walker ----------------------------------------------------------------------------------
    def walk(self, ctx, snap, new_state, new_text, old_state, old_text, facts=None):
        """Compare the directory snapshot after a successful update with the template model."""
        facts = dict(facts or {})
        ok = True
        for path in self.files:
            data = snap.get(path)
            if data is None:
                ctx.violation("C04", "file_missing", dict(facts, path=path), "configured file %r vanished" % path)
                ok = False
                continue
            want = self.expected_text(path, new_state, new_text)
            try:
                have = data.decode("utf-8", "surrogateescape" if self.project.get("invalid_utf8") else "strict")
            except UnicodeDecodeError:
                ctx.violation("C04", "literal_changed", dict(facts, path=path), "file %r is no longer valid UTF-8" % path)
                ok = False
                continue
            if path in self.links:
                target = self.links[path]
                link_text = os.path.relpath(target, os.path.dirname(path) or ".").encode("utf-8")
                if snap.get(path + invoker.LINK_MARK) != link_text:
                    ctx.violation("C04", "symlink_replaced", dict(facts, path=path),
                                  "configured file %r was a symbolic link to %r and is now %s" % (
                                      path, target, "a link to %r" % snap.get(path + invoker.LINK_MARK) if path + invoker.LINK_MARK in snap else "a regular file"))
                    ok = False
                if snap.get(target) != data:
                    ctx.violation("C03", "stale_slot", dict(facts, path=target, region="(link target)", regime=self._regime(path),
                                                            shared_line=False, is_config=False),
                                  "the file %r points to, %r, does not hold what %r shows" % (path, target, path))
                    ok = False
            if have == want:
                continue
            nv = len(ctx.violations)
            self._diagnose(ctx, path, have, new_state, new_text, old_state, old_text, facts)
            if len(ctx.violations) != nv:
                ok = False
                if not any(v["property"] in ("C03", "C15") for v in ctx.violations[nv:]):
                    self._occurrences(ctx, path, have, new_state, new_text, facts)
        for path, text in self.project.get("extra", {}).items():
            if path in self.files:
                continue
            if snap.get(path) != text.encode("utf-8"):
                ctx.violation("C04", "unconfigured_file_written", dict(facts, path=path),
                              "file %r is not named in the configuration but changed" % path)
                ok = False
        known = set(self.files) | set(self.project.get("extra", {})) | set(self.links.values()) | \
            set(p + invoker.LINK_MARK for p in self.links)
        for path in snap:
            if path not in known and not path.endswith((".sh",)):
                ctx.violation("C04", "unconfigured_file_written", dict(facts, path=path), "file %r appeared" % path)
                ok = False
        return ok

    def _occurrences(self, ctx, path, have, new_state, new_text, facts):
        """C03 next to a C04 diagnosis: every occurrence, together with the literal text around it on its line, must be
        present in the file (a replacement that lands shifted destroys both the literal and the occurrence)."""
        for line in self.files[path]:
            segs = line["segs"]
            for i, seg in enumerate(segs):
                if isinstance(seg, str) or seg["slot"] == "{pep440_version}":
                    continue
                want = region_text(seg["slot"], self.vtree, new_state, new_text, self.clock_fields())
                before = segs[i - 1][-6:] if i > 0 and isinstance(segs[i - 1], str) else ""
                after = segs[i + 1][:6] if i + 1 < len(segs) and isinstance(segs[i + 1], str) else ""
                if before + want + after not in have:
                    ctx.violation("C03", "occurrence_not_shown", dict(facts, path=path, region=seg["slot"], regime=self._regime(path),
                                                                      is_config=(path == self.syntax)),
                                  "file %r: no occurrence %r of slot %r is left after the update" % (
                                      path, before + want + after, seg["slot"]))
                    return

    def _diagnose(self, ctx, path, have, new_state, new_text, old_state, old_text, facts):
        pos = 0
        lines = self.files[path]
        flat = []
        for line in lines:
            for seg in line["segs"]:
                flat.append(seg)
            if line["end"]:
                flat.append(line["end"])
        shared_line = {}
        for li, line in enumerate(lines):
            nslots = sum(1 for s in line["segs"] if not isinstance(s, str))
            for s in line["segs"]:
                if not isinstance(s, str):
                    shared_line[id(s)] = nslots > 1
        for i, seg in enumerate(flat):
            if isinstance(seg, str):
                if have.startswith(seg, pos):
                    pos += len(seg)
                    continue
                ctx.violation("C04", "literal_changed", dict(facts, path=path, regime=self._regime(path)),
                              "file %r: literal text %r not preserved at offset %d (found %r)" % (
                                  path, seg[:40], pos, have[pos:pos + 40]))
                return
            # slot: ends where the next literal begins (or at end of file)
            nxt = None
            for later in flat[i + 1:]:
                if isinstance(later, str) and later:
                    nxt = later
                    break
                if not isinstance(later, str):
                    break
            if nxt is None and i + 1 < len(flat):
                # slot directly followed by another slot: cannot delimit
                ctx.count("walker_undelimited_slot")
                return
            want = region_text(seg["slot"], self.vtree, new_state, new_text, self.clock_fields())
            try:
                old_r = region_text(seg["slot"], self.vtree, old_state, old_text, self.start_clock_fields) if old_state is not None else None
            except Exception:
                old_r = None
            # the slot ends where the next literal begins; a rendering may itself contain that literal ("100 of 0" in
            # front of " "), so the expected and the previous rendering are tried as a whole before searching
            end = None
            for cand in (want, old_r, self.pep_cache.get(old_text) if seg["slot"] == "{pep440_version}" else None):
                if cand and have.startswith(cand, pos):
                    p2 = pos + len(cand)
                    if (nxt is None and p2 == len(have)) or (nxt is not None and have.startswith(nxt, p2)):
                        end = p2
                        break
            if end is None:
                end = len(have) if nxt is None else have.find(nxt, pos)
            if end < 0:
                ctx.violation("C04", "literal_changed", dict(facts, path=path, regime=self._regime(path)),
                              "file %r: literal %r after a slot not found" % (path, nxt[:40]))
                return
            got = have[pos:end]
            if got != want and seg["slot"] == "{pep440_version}" and pep_slot_ok(got, new_text):
                ctx.count("pep440_slot_equal_not_canonical")
                pos = end
                continue
            if got != want:
                try:
                    old = region_text(seg["slot"], self.vtree, old_state, old_text, self.start_clock_fields) if old_state is not None else None
                except Exception:
                    old = None
                if seg["slot"] == "{pep440_version}" and old_text in self.pep_cache and got == self.pep_cache[old_text]:
                    old = got
                f = dict(facts, path=path, region=seg["slot"], regime=self._regime(path),
                         shared_line=shared_line.get(id(seg), False), is_config=(path == self.syntax))
                if seg["slot"] == "{pep440_version}" and got != old:
                    ctx.violation("C15", "pep440_slot_not_equal", f,
                                  "file %r: {pep440_version} slot shows %r, PEP 440 form of %r is %r" % (
                                      path, got, new_text, want))
                elif path == self.syntax and seg.get("pat") == -1:
                    ctx.violation("C03", "config_version_mismatch", f,
                                  "config current_version shows %r, announced %r" % (got, new_text))
                elif got == old:
                    ctx.violation("C03", "stale_slot", f,
                                  "file %r: slot %r still shows %r, expected %r" % (path, seg["slot"], got, want))
                    if seg["slot"] == "{pep440_version}":
                        # C15's own words: the {pep440_version} text equals the PEP440 value `show` prints (now: the new one)
                        ctx.violation("C15", "pep440_slot_not_equal", dict(f, stale=True),
                                      "file %r: {pep440_version} slot still shows %r after the update to %r (PEP 440 form %r)" % (
                                          path, got, new_text, want))
                else:
                    ctx.violation("C03", "wrong_slot", f,
                                  "file %r: slot %r shows %r, expected %r (was %r)" % (path, seg["slot"], got, want, old))
                return
            pos = end
        if pos != len(have):
            ctx.violation("C04", "literal_changed", dict(facts, path=path), "file %r: %d trailing characters" % (
                path, len(have) - pos))

    def _regime(self, path):
        for f in self.project["files"]:
            if f["path"] == path:
                return f.get("regime")
        return self.project.get("cfg_regime")
