"""FakeRepo (an in-process model of a git / hg repository), the subprocess shims that sit at
bumpver's `sp` seam, and FakeHook.  The shims classify commands *by role* and are tolerant of
flag spellings, so a harmless refactor of the command templates does not confuse them."""
import io
import os
import copy
import errno
import hashlib
import subprocess

from . import invoker

MUTATING = ("add", "commit", "tag", "push")


def _split_opts(args, valued):
    """-> (opts: dict name->value|True, positionals: list)"""
    opts = {}
    pos = []
    i = 0
    n = len(args)
    while i < n:
        a = args[i]
        if a == "--":
            pos.extend(args[i + 1:])
            break
        if a.startswith("--") and "=" in a:
            k, v = a.split("=", 1)
            opts[k] = v
        elif a in valued:
            if i + 1 < n:
                opts[a] = args[i + 1]
                i += 1
            else:
                opts[a] = None
        elif a.startswith("-") and len(a) > 1:
            opts[a] = True
        else:
            pos.append(a)
        i += 1
    return opts, pos


GIT_ADD_FLAGS = {"--update", "-u", "--all", "-A", "--no-all", "--force", "-f", "--verbose", "-v", "--dry-run", "-n",
                 "--ignore-errors", "--intent-to-add", "-N", "--renormalize", "--refresh", "--ignore-missing", "--sparse",
                 "--pathspec-file-nul", "--ignore-removal", "--no-ignore-removal"}
GIT_ADD_VALUED = {"--pathspec-from-file", "--chmod"}
HG_ADD_FLAGS = {"-S", "--subrepos", "-n", "--dry-run", "-v", "--verbose", "-q", "--quiet"}
HG_ADD_VALUED = {"-I", "--include", "-X", "--exclude"}


def c_unquote(line):
    """git's unquote_c_style for a line that begins with a double quote: -> text or None when badly quoted.
    Whatever follows the closing quote is ignored (as git does when no end pointer is asked for)."""
    out = bytearray()
    data = line.encode("utf-8", "surrogateescape")
    i = 1
    n = len(data)
    simple = {ord("a"): 7, ord("b"): 8, ord("f"): 12, ord("n"): 10, ord("r"): 13, ord("t"): 9, ord("v"): 11,
              ord("\\"): ord("\\"), ord('"'): ord('"')}
    while i < n:
        ch = data[i]
        if ch == ord('"'):
            return out.decode("utf-8", "surrogateescape")
        if ch != ord("\\"):
            out.append(ch)
            i += 1
            continue
        i += 1
        if i >= n:
            return None
        ch = data[i]
        if ch in simple:
            out.append(simple[ch])
            i += 1
        elif ord("0") <= ch <= ord("3"):
            if i + 2 >= n or not all(ord("0") <= c <= ord("7") for c in data[i + 1:i + 3]):
                return None
            out.append(int(data[i:i + 3].decode("ascii"), 8))
            i += 3
        else:
            return None
    return None


def parse_add(tool, rest, stdin):
    """Option parsing of `git add` / `hg add` as the real tools do it: everything that starts with a dash in front of a
    `--` is an option, whatever the caller meant it to be.
    -> info dict: paths, opts, bad_option (first unknown option), sweep (no pathspec limits an updating add),
       bad_stdin (pathspec file badly quoted)"""
    flags, valued = (GIT_ADD_FLAGS, GIT_ADD_VALUED) if tool == "git" else (HG_ADD_FLAGS, HG_ADD_VALUED)
    opts = {}
    pos = []
    bad = None
    i = 0
    while i < len(rest):
        a = rest[i]
        if a == "--":
            pos.extend(rest[i + 1:])
            break
        if a.startswith("--") and "=" in a and a.split("=", 1)[0] in valued:
            k, v = a.split("=", 1)
            opts[k] = v
        elif a in valued:
            if i + 1 < len(rest):
                opts[a] = rest[i + 1]
                i += 1
            else:
                bad = bad or a
        elif a in flags:
            opts[a] = True
        elif a.startswith("-") and len(a) > 1:
            # real option parsers also accept bundled short flags; anything else is an error
            if not a.startswith("--") and all(("-" + ch) in flags for ch in a[1:]):
                for ch in a[1:]:
                    opts["-" + ch] = True
            else:
                bad = bad or a
        else:
            pos.append(a)
        i += 1
    info = {"opts": sorted(opts), "bad_option": bad}
    src = opts.get("--pathspec-from-file")
    if tool == "git" and src is not None:
        if pos:
            info["bad_option"] = info["bad_option"] or "--pathspec-from-file with pathspec arguments"
        text = (stdin or b"").decode("utf-8", "surrogateescape") if src == "-" else None
        if text is None:
            try:
                with open(src, "rb") as fobj:
                    text = fobj.read().decode("utf-8", "surrogateescape")
            except OSError:
                text = ""
                info["bad_option"] = info["bad_option"] or "cannot open pathspec file"
        if "--pathspec-file-nul" in opts:
            pos = [x for x in text.split("\0") if x]
        else:
            pos = []
            for line in text.split("\n"):
                if line.endswith("\r"):
                    line = line[:-1]
                if not line:
                    continue
                if line.startswith('"'):
                    un = c_unquote(line)
                    if un is None:
                        info["bad_stdin"] = line
                        continue
                    line = un
                pos.append(line)
    elif "--pathspec-file-nul" in opts and tool == "git":
        info["bad_option"] = info["bad_option"] or "--pathspec-file-nul without --pathspec-from-file"
    info["paths"] = pos
    if tool == "git":
        info["sweep"] = not pos and any(k in opts for k in ("--update", "-u", "--all", "-A"))
        info["nothing"] = not pos and not info["sweep"]
    else:
        info["sweep"] = not pos      # `hg add` without names schedules every untracked file
    return info


def classify(argv, stdin=None):
    """argv -> (tool, role, info).  Roles: probe_usable fetch ls_tags ls_tags_branch status add commit
    tag push probe_remote probe_branches unknown"""
    if not argv:
        return ("?", "unknown", {})
    tool = os.path.basename(argv[0])
    sub = argv[1] if len(argv) > 1 else ""
    rest = list(argv[2:])
    if tool == "git":
        if sub == "rev-parse":
            return (tool, "probe_usable", {})
        if sub == "fetch":
            return (tool, "fetch", {})
        if sub == "tag":
            opts, pos = _split_opts(rest, {"--message", "-m", "--merged", "--contains", "--points-at", "--sort"})
            if "--list" in opts or "-l" in opts or (not pos and "--message" not in opts and "-m" not in opts):
                merged = "--merged" in opts
                return (tool, "ls_tags_branch" if merged else "ls_tags", {"format": opts.get("--format"), "sort": opts.get("--sort"),
                                                                            "merged": opts.get("--merged")})
            msg = opts.get("--message", opts.get("-m"))
            return (tool, "tag", {"name": pos[0] if pos else None, "message": msg, "extra_pos": pos[1:]})
        if sub == "status":
            return (tool, "status", {})
        if sub == "add":
            return (tool, "add", parse_add(tool, rest, stdin))
        if sub == "commit":
            opts, pos = _split_opts(rest, {"--message", "-m", "--file", "-F", "--author", "--date"})
            return (tool, "commit", {"message": opts.get("--message", opts.get("-m")), "extra_pos": pos,
                                     "opts": sorted(k for k in opts if k not in ("--message", "-m"))})
        if sub == "push":
            opts, pos = _split_opts(rest, set())
            return (tool, "push", {"pos": pos, "opts": sorted(opts)})
        if sub == "config":
            return (tool, "probe_remote", {})
        if sub == "branch":
            return (tool, "probe_branches", {"show_current": "--show-current" in rest})
        if sub == "symbolic-ref":
            return (tool, "probe_head", {"short": "--short" in rest, "quiet": "-q" in rest or "--quiet" in rest})
        if sub == "for-each-ref":
            opts, pos = _split_opts(rest, {"--sort", "--count", "--merged", "--contains", "--points-at"})
            return (tool, "probe_refs", {"format": opts.get("--format"), "patterns": pos})
        if sub in ("remote", "log", "describe", "show", "ls-files", "diff"):
            return (tool, "probe_other", {})
        return (tool, "unknown", {})
    if tool == "hg":
        if sub == "root":
            return (tool, "probe_usable", {})
        if sub == "pull":
            return (tool, "fetch", {})
        if sub == "tags":
            return (tool, "ls_tags", {})
        if sub == "log":
            return (tool, "ls_tags_branch", {})
        if sub == "status":
            return (tool, "status", {})
        if sub == "add":
            return (tool, "add", parse_add(tool, rest, stdin))
        if sub == "commit":
            opts, pos = _split_opts(rest, {"--logfile", "-l", "--message", "-m", "--user", "--date"})
            msg = opts.get("--message", opts.get("-m"))
            logfile = opts.get("--logfile", opts.get("-l"))
            if logfile is not None and msg is None:
                try:
                    with open(logfile, "rb") as fobj:
                        msg = fobj.read().decode("utf-8", "surrogateescape")
                except OSError:
                    msg = None
            return (tool, "commit", {"message": msg, "extra_pos": pos, "via_logfile": logfile is not None,
                                     "opts": sorted(k for k in opts if k not in
                                                    ("--message", "-m", "--logfile", "-l"))})
        if sub == "tag":
            opts, pos = _split_opts(rest, {"--message", "-m", "--rev", "-r"})
            return (tool, "tag", {"name": pos[0] if pos else None, "message": opts.get("--message", opts.get("-m")),
                                  "extra_pos": pos[1:]})
        if sub == "push":
            opts, pos = _split_opts(rest, set())
            return (tool, "push", {"pos": pos, "opts": sorted(opts)})
        if sub == "paths":
            return (tool, "probe_remote", {})
        if sub in ("branch", "id", "identify", "summary"):
            return (tool, "probe_other", {})
        return (tool, "unknown", {})
    return (tool, "unknown", {})


def git_quote(path):
    """Path as `git status --porcelain` prints it: C-style quoted when it holds blanks, quotes, backslashes, control or
    non-ASCII characters (core.quotepath default)."""
    if all(0x21 <= ord(ch) < 0x7f and ch not in '"\\' for ch in path):
        return path
    out = ['"']
    for b in path.encode("utf-8", "surrogateescape"):
        ch = chr(b)
        if ch in '"\\':
            out.append("\\" + ch)
        elif b == 0x09:
            out.append("\\t")
        elif b == 0x0a:
            out.append("\\n")
        elif b < 0x20 or b >= 0x7f:
            out.append("\\%03o" % b)
        else:
            out.append(ch)
    out.append('"')
    return "".join(out)


def _hexid(n):
    return hashlib.sha1(b"commit-%d" % n).hexdigest()[:7]


class FakeRepo:
    """A tiny model of repository state: commit DAG, branches, HEAD, tags, status, remote."""

    def __init__(self, personality="git", remote=True, tracking=True, remote_name="origin"):
        self.personality = personality
        self.remote = remote
        self.tracking = tracking
        self.remote_name = remote_name      # `git clone -o my-fork`: remote names may hold '-', '.', '_'
        self.detached = False               # HEAD points at the tip commit of `head` without being on that branch (CI checkouts)

        self.parents = {}       # commit id -> [parent ids]
        self.branches = {}      # name -> commit id
        self.head = "main" if personality == "git" else "default"
        self.tags = {}          # name -> commit id
        self.status = []        # [(xy, path)]  xy is 2 chars for git, 1 char for hg
        self.staged = []        # paths staged since the last commit
        self.committed = {}     # path -> sha of content at last commit
        self.commit_log = []    # [(id, message, sorted(paths))]
        self.tag_log = []       # [(name, message|None, commit id)]
        self.push_log = []      # [argv tail]
        self.remote_tags = set()   # tag names the remote has received through a push
        self.remote_head = None    # commit the remote branch was last pushed to
        self.fetch_count = 0
        self.pending_remote_tags = []   # tags a colleague pushed: they arrive with the next successful fetch / pull
        self.moved_remote_tags = []     # tags that exist here and point somewhere else on the remote (a moved `latest`)
        self.ncommits = 0
        self.new_commit(None)

    def clone(self):
        return copy.deepcopy(self)

    def new_commit(self, message, paths=()):
        cid = _hexid(self.ncommits)
        self.ncommits += 1
        parent = self.branches.get(self.head)
        self.parents[cid] = [parent] if parent else []
        self.branches[self.head] = cid
        if message is not None:
            self.commit_log.append((cid, message, sorted(paths)))
        return cid

    def head_commit(self):
        return self.branches[self.head]

    def ancestors(self, cid):
        seen = set()
        stack = [cid]
        while stack:
            c = stack.pop()
            if c in seen or c is None:
                continue
            seen.add(c)
            stack.extend(self.parents.get(c, []))
        return seen

    def _receive_remote_tags(self):
        """A fetch brings the remote's new commits and the tags that point at them; local branches do not move."""
        for t in self.pending_remote_tags:
            cid = None
            if isinstance(t, (list, tuple)):
                t, cid = t      # the remote tagged a commit this clone already has (CI, a release manager)
            if t in self.tags:
                continue
            if cid is None:
                cid = _hexid(self.ncommits)
                self.ncommits += 1
                self.parents[cid] = [self.head_commit()]
            self.tags[t] = cid
        self.pending_remote_tags = []

    def switch(self, branch, create_from=None):
        if branch not in self.branches:
            self.branches[branch] = self.branches[create_from or self.head]
        self.head = branch

    def baseline(self, cwd):
        """Record the current directory content as the committed content."""
        snap = invoker.snapshot(cwd)
        self.committed = {p: hashlib.sha1(d or b"").hexdigest() for p, d in snap.items() if "\0" not in p}

    def working_tree_changes(self, cwd):
        """[(status letter, path)] for tracked files whose content differs from the last commit / baseline."""
        out = []
        for p in sorted(self.committed):
            full = os.path.join(cwd, p)
            try:
                with open(full, "rb") as fobj:
                    sha = hashlib.sha1(fobj.read()).hexdigest()
            except OSError:
                out.append(("D", p))
                continue
            if sha != self.committed[p] and p not in self.staged:
                out.append(("M", p))
        return out

    def digest(self):
        h = hashlib.sha256()
        h.update(repr((self.personality, self.remote, self.tracking, sorted(self.parents.items()),
                       sorted(self.branches.items()), self.head, sorted(self.tags.items()),
                       self.status, sorted(self.staged), self.commit_log, self.tag_log, self.push_log,
                       self.fetch_count, self.pending_remote_tags, self.moved_remote_tags, self.detached,
                       self.remote_name)).encode("utf-8", "surrogateescape"))
        return h.hexdigest()[:16]

    # ---- command execution -------------------------------------------------------------------
    def execute(self, cwd, argv, role, info):
        """-> (returncode, stdout bytes, stderr bytes)"""
        if self.personality == "git":
            return self._git(cwd, argv, role, info)
        return self._hg(cwd, argv, role, info)

    def _do_add(self, cwd, info):
        git = self.personality == "git"
        if info.get("bad_option"):
            return (129 if git else 255, b"", ("error: unknown option `%s'\nusage: add [<options>] [--] <pathspec>...\n" % info["bad_option"]).encode("utf-8", "replace"))
        if info.get("bad_stdin"):
            return (128, b"", ("fatal: line is badly quoted: %s\n" % info["bad_stdin"]).encode("utf-8", "replace"))
        if info.get("sweep"):
            # no pathspec: every change of a tracked file is staged (git add -u / -A, hg add)
            for _letter, p in self.working_tree_changes(cwd):
                if p not in self.staged:
                    self.staged.append(p)
            for _xy, p in self.status:
                if p not in self.staged and os.path.exists(os.path.join(cwd, p)):
                    self.staged.append(p)
            info["swept"] = True
            return (0, b"", b"")
        if info.get("nothing") and git:
            return (0, b"", b"Nothing specified, nothing added.\n")
        for p in info.get("paths", []):
            if not os.path.exists(os.path.join(cwd, p)):
                return (128, b"", ("fatal: pathspec '%s' did not match any files\n" % p).encode("utf-8", "replace"))
            if p not in self.staged:
                self.staged.append(p)
        return (0, b"", b"")

    def _do_commit(self, cwd, info):
        changed = []
        for p in self.staged:
            try:
                with open(os.path.join(cwd, p), "rb") as fobj:
                    sha = hashlib.sha1(fobj.read()).hexdigest()
            except OSError:
                sha = None
            if self.committed.get(p) != sha:
                changed.append((p, sha))
        if self.personality == "git":
            # whatever the developer had already put into the index is swept into this commit
            swept = [p for xy, p in self.status if xy[0] not in " ?"]
        else:
            # `hg commit` without file arguments commits every tracked change
            swept = [p for xy, p in self.status if xy in ("M", "A", "R")]
        if not changed and not swept:
            return (1, b"nothing to commit, working tree clean\n", b"")
        for p, sha in changed:
            self.committed[p] = sha
        paths = [p for p, _ in changed] + [p for p in swept if p not in dict(changed)]
        self.new_commit(info.get("message") or "", paths)
        gone = set(self.staged) | set(swept)
        self.status = [(xy, p) for xy, p in self.status if p not in gone]
        self.staged = []
        return (0, b"", b"")

    def _do_tag(self, info):
        name = info.get("name")
        if not name:
            return (129, b"", b"usage: tag <name>\n")
        if name in self.tags:
            return (128, b"", ("fatal: tag '%s' already exists\n" % name).encode("utf-8", "replace"))
        if self.personality == "hg":
            cid = self.head_commit()
            self.tags[name] = cid
            self.new_commit("Added tag %s" % name, [".hgtags"])
        else:
            self.tags[name] = self.head_commit()
        self.tag_log.append((name, info.get("message"), self.tags[name]))
        return (0, b"", b"")

    def _git(self, cwd, argv, role, info):
        if role == "probe_usable":
            return (0, b".git\n", b"")
        if role == "fetch":
            if not self.remote:
                return (128, b"", b"fatal: no remote\n")
            self.fetch_count += 1
            where = [a for a in argv[2:] if not a.startswith("-")]
            if not where or where[0] == self.remote_name:
                self._receive_remote_tags()
            else:
                # `git fetch <url>`: no configured refspec applies, only FETCH_HEAD is written and tags are not followed
                return (0, b"", b"")
            if self.moved_remote_tags and ("--tags" in argv or "-t" in argv) and "--force" not in argv and "-f" not in argv:
                # since git 2.20 a fetch that asks for all tags refuses to move a tag that exists locally
                t = self.moved_remote_tags[0]
                return (1, b"", (" ! [rejected]        %s -> %s  (would clobber existing tag)\n" % (t, t)).encode("utf-8"))
            return (0, b"", b"")
        if role in ("ls_tags", "ls_tags_branch"):
            names = sorted(self.tags)
            if role == "ls_tags_branch":
                anc = self.ancestors(self.head_commit())
                names = [t for t in names if self.tags[t] in anc]
            key = info.get("sort")
            if key not in (None, True):
                rev = key.startswith("-")
                k = key.lstrip("-")
                order = list(self.tags)       # creation order
                if k in ("creatordate", "taggerdate", "committerdate"):
                    names = sorted(names, key=order.index, reverse=rev)
                elif k in ("refname", "refname:short"):
                    names = sorted(names, reverse=rev)
                elif k in ("version:refname", "v:refname"):
                    import re as _re
                    names = sorted(names, key=lambda n: [int(x) if x.isdigit() else x for x in _re.split(r"(\d+)", n)], reverse=rev)
                else:
                    raise ValueError("FakeRepo does not model `git tag --sort=%s`" % key)
            fmt = info.get("format")
            if fmt in (None, True, "%(refname:strip=2)", "%(refname:lstrip=2)"):
                shown = names
            elif fmt == "%(refname:short)":
                # the shortest *unambiguous* name: a branch of the same name makes git print "tags/<name>"
                shown = [("tags/" + t) if t in self.branches else t for t in names]
            elif fmt == "%(refname)":
                shown = ["refs/tags/" + t for t in names]
            else:
                raise ValueError("FakeRepo does not model `git tag --format=%s`" % fmt)
            out = "".join(t + "\n" for t in shown)
            return (0, out.encode("utf-8"), b"")
        if role == "status":
            listed = set(p for _xy, p in self.status)
            entries = [(xy, p) for xy, p in self.status] + \
                [(" " + letter, p) for letter, p in self.working_tree_changes(cwd) if p not in listed]
            if "-z" in argv:
                # NUL separated, verbatim paths (for a rename "new\0old")
                out = "".join("%s %s\0" % (xy, p.replace(" -> ", "\0") if xy[:1] in "RC" else p) for xy, p in entries)
            else:
                out = "".join("%s %s\n" % (xy, git_quote(p)) for xy, p in entries)
            return (0, out.encode("utf-8", "surrogateescape"), b"")
        if role == "add":
            return self._do_add(cwd, info)
        if role == "commit":
            return self._do_commit(cwd, info)
        if role == "tag":
            return self._do_tag(info)
        if role == "push":
            if not self.remote:
                return (128, b"", b"fatal: no remote\n")
            self.push_log.append(list(argv[2:]))
            # what arrives: refs named on the command line; with --follow-tags also the *annotated* tags that point into the
            # pushed history (git skips lightweight tags there); with --tags every tag
            dest = (info.get("pos") or [None])[0]
            if dest not in (self.remote_name, "git@example.com:sim/project.git"):
                return (128, b"", ("fatal: '%s' does not appear to be a git repository\n" % dest).encode("utf-8", "replace"))
            pos = [a for a in info.get("pos", []) if a in self.tags]
            annotated = set(n for n, msg, _c in self.tag_log if msg)
            anc = self.ancestors(self.head_commit())
            if "HEAD" in info.get("pos", []) or self.head in info.get("pos", []) or len(info.get("pos", [])) <= 1:
                self.remote_head = self.head_commit()
            self.remote_tags |= set(pos)
            if "--follow-tags" in info.get("opts", []):
                self.remote_tags |= set(t for t in self.tags if t in annotated and self.tags[t] in anc)
            if "--tags" in info.get("opts", []):
                self.remote_tags |= set(self.tags)
            return (0, b"", b"")
        if role == "probe_remote":
            if self.remote and self.remote_name == "origin":
                return (0, b"git@example.com:sim/project.git\n", b"")
            return (1, b"", b"")
        if role == "probe_head":
            if self.detached:
                return (128 if not info.get("quiet") else 1, b"", b"fatal: ref HEAD is not a symbolic ref\n")
            return (0, ((self.head if info.get("short") else "refs/heads/" + self.head) + "\n").encode("utf-8"), b"")
        if role == "probe_refs":
            fmt = info.get("format")
            refs = [p for p in info.get("patterns", []) if p.startswith("refs/heads/")]
            if fmt in ("%(upstream:remotename)", "%(upstream:short)", "%(upstream)") and len(refs) == 1:
                name = refs[0][len("refs/heads/"):]
                if name in self.branches and self.remote and self.tracking:
                    val = {"%(upstream:remotename)": self.remote_name, "%(upstream:short)": "%s/%s" % (self.remote_name, name),
                           "%(upstream)": "refs/remotes/%s/%s" % (self.remote_name, name)}[fmt]
                    return (0, (val + "\n").encode("utf-8"), b"")
                return (0, b"\n" if name in self.branches else b"", b"")
            raise ValueError("FakeRepo does not model `git for-each-ref` with format %r and patterns %r" % (fmt, info.get("patterns")))
        if role == "probe_branches" and info.get("show_current"):
            return (0, b"" if self.detached else (self.head + "\n").encode("utf-8"), b"")
        if role == "probe_branches":
            lines = []
            if self.detached:
                lines.append("* (HEAD detached at %s) %s simulated subject\n" % (self.head_commit(), self.head_commit()))
            for name in sorted(self.branches):
                star = "*" if (name == self.head and not self.detached) else " "
                track = "[%s/%s] " % (self.remote_name, name) if (self.remote and self.tracking) else ""
                lines.append("%s %s %s %ssimulated subject\n" % (star, name, self.branches[name], track))
            return (0, "".join(lines).encode("utf-8"), b"")
        return (0, b"", b"")

    def _hg(self, cwd, argv, role, info):
        if role == "probe_usable":
            return (0, (cwd + "\n").encode("utf-8", "replace"), b"")
        if role == "fetch":
            if not self.remote:
                return (255, b"", b"abort: repository default not found\n")
            self.fetch_count += 1
            self._receive_remote_tags()
            return (0, b"", b"")
        if role == "ls_tags":
            lines = ["%-30s %5d:%s\n" % ("tip", self.ncommits - 1, self.head_commit())]
            for i, t in enumerate(reversed(list(self.tags))):
                lines.append("%-30s %5d:%s\n" % (t, i, self.tags[t]))
            return (0, "".join(lines).encode("utf-8"), b"")
        if role == "ls_tags_branch":
            anc = self.ancestors(self.head_commit())
            out = "".join(t + "\n" for t in self.tags if self.tags[t] in anc)
            return (0, out.encode("utf-8"), b"")
        if role == "status":
            listed = set(p for _xy, p in self.status)
            out = "".join("%s %s\n" % (xy, p) for xy, p in self.status)
            out += "".join("%s %s\n" % ("!" if letter == "D" else letter, p) for letter, p in self.working_tree_changes(cwd)
                           if p not in listed)
            return (0, out.encode("utf-8", "surrogateescape"), b"")
        if role == "add":
            return self._do_add(cwd, info)
        if role == "commit":
            return self._do_commit(cwd, info)
        if role == "tag":
            return self._do_tag(info)
        if role == "push":
            if not self.remote:
                return (255, b"", b"abort: repository default not found\n")
            self.push_log.append(list(argv[2:]))
            # hg tags live in .hgtags, a tracked file: pushing the changesets pushes the tags
            self.remote_tags |= set(self.tags)
            self.remote_head = self.head_commit()
            return (0, b"", b"")
        if role == "probe_remote":
            if self.remote:
                return (0, b"default = https://example.com/sim/project\n", b"")
            return (0, b"", b"")
        return (0, b"", b"")


REALISTIC_FAILURES = {
    "commit": (1, b"On branch main\nnothing to commit, working tree clean\n", b""),
    "tag": (128, b"", b"fatal: tag 'x' already exists\n"),
    "push": (1, b"", b"error: failed to push some refs to 'origin'\nhint: Updates were rejected because the remote contains work\n"),
    "fetch": (128, b"", b"fatal: unable to access 'https://example.com/': Could not resolve host: example.com\n"),
    "add": (128, b"", b"fatal: pathspec 'x' did not match any files\n"),
    "status": (128, b"", b"fatal: not a git repository (or any of the parent directories): .git\n"),
}


class Fault:
    """A fault armed for one invocation.

    kind: 'fail_at' (k-th seam crossing, 0-based, raises CalledProcessError(rc)),
          'fail_role' (first crossing with that role), 'enoent_at' (k-th crossing raises OSError ENOENT),
          'missing_binary' (every spawn raises ENOENT), 'fail_role_all' (every crossing with that role fails)"""

    def __init__(self, kind, k=None, role=None, rc=128, realistic=False):
        self.kind = kind
        self.k = k
        self.role = role
        self.rc = rc
        self.realistic = realistic     # mimic the exit code and output git itself gives for the typical failure of that step
        self.fired = 0

    def to_json(self):
        return {"kind": self.kind, "k": self.k, "role": self.role, "rc": self.rc, "realistic": self.realistic}

    @staticmethod
    def from_json(d):
        if d is None:
            return None
        return Fault(d["kind"], d.get("k"), d.get("role"), d.get("rc", 128), d.get("realistic", False))


class VcsShim:
    """Stands in for the `subprocess` module inside bumpver.vcs."""

    PIPE = subprocess.PIPE
    STDOUT = subprocess.STDOUT
    DEVNULL = subprocess.DEVNULL
    CalledProcessError = subprocess.CalledProcessError

    def __init__(self, repo=None, fault=None, forward_env=None):
        """repo: FakeRepo, or None to forward to real binaries (with forward_env merged in)."""
        self.repo = repo
        self.fault = fault
        self.forward_env = forward_env
        self.cwd = None
        self.events = None
        self.crossings = 0
        self.harness_error = None

    def begin(self, cwd, events):
        self.cwd = cwd
        self.events = events
        self.crossings = 0

    def _fault_hits(self, role):
        f = self.fault
        if f is None:
            return None
        k = self.crossings
        if f.kind == "missing_binary":
            return "enoent"
        if f.kind == "fail_at" and f.k == k:
            return "cpe"
        if f.kind == "enoent_at" and f.k == k:
            return "enoent"
        if f.kind == "fail_role" and f.role == role and not f.fired:
            return "cpe"
        if f.kind == "fail_role_all" and f.role == role:
            return "cpe"       # a failure that persists: every attempt at this step fails (a stale lock file, a dead remote)
        return None

    def _run(self, argv, env, stdin=None, merge_stderr=False):
        try:
            argv = [str(a) for a in argv]
            if isinstance(stdin, str):
                stdin = stdin.encode("utf-8", "surrogateescape")
            tool, role, info = classify(argv, stdin)
            ev = {"kind": "vcs", "tool": tool, "role": role, "argv": argv, "info": info,
                  "dir": invoker.dir_digest(self.cwd), "k": self.crossings}
            if stdin is not None:
                ev["stdin"] = stdin.decode("utf-8", "surrogateescape")
            self.events.append(ev)
            hit = self._fault_hits(role)
            self.crossings += 1
        except Exception as ex:  # simulator bug
            self.harness_error = "VcsShim: %r" % (ex,)
            raise invoker.HarnessError(self.harness_error)
        if hit == "enoent":
            self.fault.fired += 1
            ev["rc"] = "ENOENT"
            ev["fault"] = True
            raise OSError(errno.ENOENT, "No such file or directory: %r (injected)" % argv[0])
        if hit == "cpe":
            self.fault.fired += 1
            ev["fault"] = True
            if self.fault.realistic == "lock":
                err = (b"fatal: Unable to create '/w/.git/index.lock': File exists.\n\nAnother git process seems to be running in this "
                       b"repository, e.g.\nan editor opened by 'git commit'.\n") if tool == "git" else \
                    b"waiting for lock on working directory of /w held by process '4242' on host 'ci'\nabort: working directory of /w: timed out waiting for lock\n"
                ev["rc"] = 128 if tool == "git" else 255
                return (ev["rc"], b"", err)
            if self.fault.realistic:
                rc, out, err = REALISTIC_FAILURES.get(role, (self.fault.rc, b"", b"injected failure\n"))
                ev["rc"] = rc
                return (rc, out, err)
            ev["rc"] = self.fault.rc
            return (self.fault.rc, b"", b"injected failure\n")
        if self.repo is not None:
            try:
                rc, out, err = self.repo.execute(self.cwd, argv, role, info)
            except Exception as ex:
                self.harness_error = "FakeRepo: %r on %r" % (ex, argv)
                raise invoker.HarnessError(self.harness_error)
        else:
            full_env = dict(env if env is not None else os.environ)
            if self.forward_env:
                full_env.update(self.forward_env)
            try:
                proc = subprocess.run(argv, cwd=self.cwd, env=full_env, stdout=subprocess.PIPE,
                                      stderr=subprocess.STDOUT if merge_stderr else subprocess.PIPE, timeout=60,
                                      **({"input": stdin} if stdin is not None else {"stdin": subprocess.DEVNULL}))
            except subprocess.TimeoutExpired:
                self.harness_error = "timeout running %r" % (argv,)
                raise invoker.HarnessError(self.harness_error)
            rc, out, err = proc.returncode, proc.stdout, proc.stderr or b""
        if merge_stderr and self.repo is not None and err:
            out = err + out        # the caller asked for one stream (stderr=STDOUT): what the tool says on stderr comes with it
        ev["rc"] = rc
        return (rc, out, err)

    def check_output(self, cmd, env=None, stderr=None, **kw):
        rc, out, err = self._run(cmd, env, kw.get("input"), merge_stderr=(stderr == subprocess.STDOUT))
        if rc != 0:
            raise subprocess.CalledProcessError(rc, cmd, output=out, stderr=err)
        return out

    def call(self, cmd, stderr=None, stdout=None, env=None, **kw):
        rc, _out, _err = self._run(cmd, env)
        return rc

    def run(self, cmd, **kw):  # tolerated alternative spelling
        rc, out, err = self._run(cmd, kw.get("env"), kw.get("input"), merge_stderr=(kw.get("stderr") == subprocess.STDOUT))
        if kw.get("check") and rc != 0:
            raise subprocess.CalledProcessError(rc, cmd, output=out, stderr=err)
        return subprocess.CompletedProcess(cmd, rc, out, err)


class _FakeProc:
    def __init__(self, rc, out=b"", err=b""):
        self.returncode = None
        self._rc = rc
        self.stdout = io.BytesIO(out)
        self.stderr = io.BytesIO(err)
        self.pid = 4242

    def wait(self, timeout=None):
        self.returncode = self._rc
        return self._rc

    def communicate(self, input=None, timeout=None):
        self.returncode = self._rc
        return (self.stdout.read(), self.stderr.read())

    def poll(self):
        return self.returncode

    def __enter__(self):
        return self

    def __exit__(self, *a):
        self.wait()
        return False


class HookShim:
    """Stands in for `subprocess` inside bumpver.hooks.  plan: basename -> 'ok' | 'fail' | 'eacces'"""

    PIPE = subprocess.PIPE
    STDOUT = subprocess.STDOUT
    DEVNULL = subprocess.DEVNULL
    CalledProcessError = subprocess.CalledProcessError

    def __init__(self, plan=None):
        self.plan = plan or {}
        self.cwd = None
        self.events = None
        self.harness_error = None

    def begin(self, cwd, events):
        self.cwd = cwd
        self.events = events

    def Popen(self, cmd, env=None, stdout=None, stderr=None, **kw):
        try:
            path = cmd if isinstance(cmd, str) else (cmd[0] if cmd else "")
            path = str(path)
            rel = os.path.relpath(path, self.cwd) if os.path.isabs(path) else path
            base = os.path.basename(path)
            env = env if env is not None else os.environ
            ev = {"kind": "hook", "path": rel, "abs": os.path.isabs(path),
                  "old": env.get("BUMPVER_OLD_VERSION"), "new": env.get("BUMPVER_NEW_VERSION"),
                  "dir": invoker.dir_digest(self.cwd)}
            self.events.append(ev)
            behaviour = self.plan.get(base, "ok")
        except Exception as ex:
            self.harness_error = "HookShim: %r" % (ex,)
            raise invoker.HarnessError(self.harness_error)
        if kw.get("shell") and isinstance(cmd, str) and any(ch in cmd for ch in " \t&;|<>()$`\\\"'*?[]#~!{}"):
            # handed to /bin/sh as a command line: the shell splits and expands it, the program named by the path is not run
            ev["rc"] = 127
            ev["shell_split"] = True
            return _FakeProc(127, b"", b"/bin/sh: 1: not found\n")
        if behaviour == "eacces":
            ev["rc"] = "EACCES"
            raise OSError(errno.EACCES, "Permission denied (injected): %r" % path)
        rc = 0 if behaviour == "ok" else 3
        if behaviour.startswith("fail:"):
            rc = int(behaviour.split(":", 1)[1])     # e.g. 255, or -9 / -15 for a hook that was killed by a signal
        ev["rc"] = rc
        return _FakeProc(rc, b"hook output line\n", b"" if rc == 0 else b"hook failed\n")

    def run(self, cmd, env=None, **kw):
        proc = self.Popen(cmd, env=env)
        proc.wait()
        return subprocess.CompletedProcess(cmd, proc.returncode, b"", b"")

    def call(self, cmd, env=None, **kw):
        proc = self.Popen(cmd, env=env)
        return proc.wait()

    def check_call(self, cmd, env=None, **kw):
        rc = self.call(cmd, env=env)
        if rc:
            raise subprocess.CalledProcessError(rc, cmd)
        return 0
