"""The single place where library entry points of bumpver (not its CLI) are called."""
from . import invoker


def _mods():
    invoker.setup()
    import bumpver.v2version as v2version
    import bumpver.v2patterns as v2patterns
    import bumpver.v1version as v1version
    import bumpver.v1patterns as v1patterns
    import bumpver.version as version
    import bumpver.config as config
    return v2version, v2patterns, v1version, v1patterns, version, config


def is_legacy(pattern):
    return "{" in pattern or "}" in pattern


def parse(text, pattern):
    """-> version-info namedtuple; raises bumpver's PatternError (or whatever escapes)."""
    v2version, _v2p, v1version, _v1p, _version, _config = _mods()
    if is_legacy(pattern):
        return v1version.parse_version_info(text, pattern)
    return v2version.parse_version_info(text, pattern)


def fmt(vinfo, pattern):
    v2version, _v2p, v1version, _v1p, _version, _config = _mods()
    if is_legacy(pattern):
        return v1version.format_version(vinfo, pattern)
    return v2version.format_version(vinfo, pattern)


def full_match(text, pattern):
    _v2v, v2patterns, _v1v, v1patterns, _version, _config = _mods()
    mod = v1patterns if is_legacy(pattern) else v2patterns
    rx = mod.compile_pattern(pattern).regexp
    m = rx.match(text)
    return m is not None and m.end() == len(text)


def pattern_error_type():
    return _mods()[4].PatternError


def to_pep440(text):
    return _mods()[4].to_pep440(text)


def set_today(date):
    _mods()[4].TODAY = date


def cal_info(date):
    """v2 calendar info as a dict."""
    return _mods()[0].cal_info(date)._asdict()


def vinfo_with_date(vinfo, date, pattern):
    v2version, _v2p, v1version, _v1p, _version, _config = _mods()
    if is_legacy(pattern):
        return vinfo._replace(**v1version.cal_info(date)._asdict())
    return vinfo._replace(**v2version.cal_info(date)._asdict())


def load_config(project_dir):
    """-> (ctx, cfg) from config.init with cwd = project_dir"""
    import os
    config = _mods()[5]
    os.chdir(project_dir)
    return config.init(project_path=".")


def pep440_slot_text(vtext, vpattern):
    """What bumpver itself renders for a `{pep440_version}` occurrence of version vtext (used only to build a
    *starting* world that bumpver accepts; the oracle for what an update writes is independent of this)."""
    v2version, v2patterns, _v1v, _v1p, _version, _config = _mods()
    vinfo = v2version.parse_version_info(vtext, vpattern)
    normalized = v2patterns.normalize_pattern(vpattern, "{pep440_version}")
    return v2version.format_version(vinfo, normalized)


def search_pattern_finds(vpattern, raw_pattern, text):
    """Does the search pattern compiled by bumpver for (version pattern, raw file pattern) match inside text?"""
    _v2v, v2patterns, _v1v, v1patterns, _version, _config = _mods()
    mod = v1patterns if is_legacy(vpattern) else v2patterns
    rx = mod.compile_pattern(vpattern, raw_pattern).regexp
    return rx.search(text) is not None


def search_pattern_round_trip(vpattern, raw_pattern, vtext):
    """What bumpver's rewrite step renders for one search pattern and the version vtext, and whether the recogniser
    compiled from that same pattern accepts the rendering in full.  -> (rendered, accepted) or None when vtext itself
    cannot be read (the version-level round trip reports that)."""
    v2version, v2patterns, v1version, v1patterns, _version, _config = _mods()
    legacy = is_legacy(vpattern)
    pmod, vmod = (v1patterns, v1version) if legacy else (v2patterns, v2version)
    try:
        vinfo = vmod.parse_version_info(vtext, vpattern)
    except Exception:
        return None
    pat = pmod.compile_pattern(vpattern, raw_pattern)
    rendered = vmod.format_version(vinfo, pat.raw_pattern)
    m = pat.regexp.search(rendered)
    return rendered, (m is not None and m.start() == 0 and m.end() == len(rendered))
