"""In-process and child-process invocation of the real bumpver CLI behind the simulator's seams.

Seams used (all pre-existing in bumpver, nothing is patched inside /repo):
  clock      bumpver.version.TODAY, bumpver.utils.now
  VCS        bumpver.vcs.sp      (module alias of subprocess) -> Shim object
  hooks      bumpver.hooks.sp    -> Shim object
  files      a real scratch directory (cwd of the invocation)
  globbing   pathlib.Path.glob permutation (only while an invocation runs)
  logging    our own root handler (so logging.basicConfig inside bumpver is a no-op)
"""
import os
import time
import sys
import errno
import shutil
import hashlib
import logging
import pathlib
import datetime as dt
import subprocess

REPO_SRC = os.path.realpath(os.environ.get("VERIF_REPO_SRC", "/repo/src"))
PYTHON = "/venv/bin/python"

_state = {"ready": False}


class HarnessError(Exception):
    """A bug or impossibility inside the simulator itself (never a bumpver violation)."""


class _Collector(logging.Handler):
    def __init__(self):
        super().__init__(level=logging.DEBUG)
        self.records = []

    def emit(self, record):
        try:
            msg = record.getMessage()
        except Exception as ex:  # pragma: no cover
            msg = "<unformattable %r>" % (ex,)
        self.records.append((record.levelname, record.name, msg))


COLLECTOR = _Collector()


def setup():
    """Import bumpver from REPO_SRC and install the seams that are process-wide."""
    if _state["ready"]:
        return
    if REPO_SRC not in sys.path:
        sys.path.insert(0, REPO_SRC)
    # the editable install may already have put /repo/src on sys.path; REPO_SRC first wins
    for name in list(sys.modules):
        if name == "bumpver" or name.startswith("bumpver."):
            del sys.modules[name]
    import bumpver
    import bumpver.cli
    import bumpver.vcs
    import bumpver.hooks
    import bumpver.utils
    import bumpver.version

    where = os.path.realpath(bumpver.__file__)
    if not where.startswith(REPO_SRC + os.sep):
        raise HarnessError("bumpver imported from %s, expected under %s" % (where, REPO_SRC))

    # click's test runner captures stdout through a *strict* UTF-8 stream; the real processes of this sandbox (and of the
    # fidelity legs) run under the C.UTF-8 locale, whose stdout passes undecodable file-name bytes through (surrogateescape).
    # The in-process seam has to behave like the process it stands for.
    import click.testing as _ct
    _orig_wrapper = _ct._NamedTextIOWrapper

    class _LocaleFaithfulWrapper(_orig_wrapper):
        def __init__(self, buffer, name, mode, **kw):
            if name == "<stdout>" and "errors" not in kw:
                kw["errors"] = "surrogateescape"
            super().__init__(buffer, name, mode, **kw)

    _ct._NamedTextIOWrapper = _LocaleFaithfulWrapper

    root = logging.getLogger()
    for h in list(root.handlers):
        root.removeHandler(h)
    root.addHandler(COLLECTOR)
    root.setLevel(logging.INFO)
    _state["ready"] = True
    _state["orig_sp_vcs"] = bumpver.vcs.sp
    _state["orig_sp_hooks"] = bumpver.hooks.sp
    _state["orig_now"] = bumpver.utils.now
    _state["orig_glob"] = pathlib.Path.glob
    _record_baseline()


def _bumpver_modules():
    return [m for n, m in sorted(sys.modules.items()) if (n == "bumpver" or n.startswith("bumpver.")) and m is not None]


def _record_baseline():
    """Deep copies of every module-level container of bumpver, taken right after import."""
    import copy
    base = {}
    for mod in _bumpver_modules():
        for attr, val in list(vars(mod).items()):
            if attr.startswith("__") or not isinstance(val, (dict, list, set)):
                continue
            try:
                base[(mod.__name__, attr)] = copy.deepcopy(val)
            except Exception:
                pass
    _state["baseline"] = base


def reset_state():
    """Called at the start of every run: whatever earlier runs of this worker left inside bumpver's modules (memo caches,
    mutated module-level tables) is undone, so that a run depends on its seed only and replays in a fresh process.
    -> number of module-level containers that had to be restored (a state leak of the code under test)."""
    if not _state.get("ready"):
        return 0
    restored = 0
    for mod in _bumpver_modules():
        for attr, val in list(vars(mod).items()):
            clo = getattr(val, "__closure__", None)
            if clo and callable(val) and hasattr(val, "__wrapped__"):
                for cell in clo:
                    try:
                        content = cell.cell_contents
                    except ValueError:
                        continue
                    if isinstance(content, dict):
                        content.clear()
            key = (mod.__name__, attr)
            base = _state.get("baseline", {}).get(key)
            if base is not None and isinstance(val, type(base)):
                try:
                    same = val == base
                except Exception:
                    same = True
                if not same:
                    import copy
                    fresh = copy.deepcopy(base)
                    val.clear()
                    if isinstance(val, list):
                        val.extend(fresh)
                    else:
                        val.update(fresh)
                    restored += 1
    return restored


def scratch_root():
    base = os.environ.get("VERIF_SCRATCH")
    if not base:
        base = "/dev/shm" if os.path.isdir("/dev/shm") and os.access("/dev/shm", os.W_OK) else (
            os.environ.get("TMPDIR") or "/tmp")
    path = os.path.join(base, "bumpver-verif-%d" % os.getpid())
    os.makedirs(path, exist_ok=True)
    return path


def new_dir(tag="w"):
    root = scratch_root()
    n = _state.get("dirn", 0) + 1
    _state["dirn"] = n
    path = os.path.join(root, "%s%d" % (tag, n))
    if os.path.exists(path):
        shutil.rmtree(path)
    os.makedirs(path)
    return path


def purge_scratch():
    """End of a run: everything the run created in this process's scratch root goes away at once (a thorough campaign makes
    tens of thousands of directories per worker; tmpfs runs out of inodes long before it runs out of bytes)."""
    root = os.path.join(os.environ.get("VERIF_SCRATCH") or ("/dev/shm" if os.path.isdir("/dev/shm") else "/tmp"),
                        "bumpver-verif-%d" % os.getpid())
    try:
        os.chdir("/")
        names = os.listdir(root)
    except OSError:
        return
    for name in names:
        full = os.path.join(root, name)
        if os.path.isdir(full) and not os.path.islink(full):
            shutil.rmtree(full, ignore_errors=True)
        else:
            try:
                os.unlink(full)
            except OSError:
                pass


def sweep_stale_scratch():
    """Remove scratch directories left behind by workers that were killed (their pid is gone)."""
    base = os.environ.get("VERIF_SCRATCH") or ("/dev/shm" if os.path.isdir("/dev/shm") else "/tmp")
    try:
        names = os.listdir(base)
    except OSError:
        return
    for name in names:
        if not name.startswith("bumpver-verif-"):
            continue
        pid = name.rsplit("-", 1)[-1]
        if pid.isdigit() and not os.path.exists("/proc/%s" % pid):
            shutil.rmtree(os.path.join(base, name), ignore_errors=True)


def cleanup_scratch():
    root = os.path.join(
        os.environ.get("VERIF_SCRATCH") or ("/dev/shm" if os.path.isdir("/dev/shm") else "/tmp"),
        "bumpver-verif-%d" % os.getpid())
    os.chdir("/")
    shutil.rmtree(root, ignore_errors=True)


SKIP_DIRS = (".git", ".hg")
LINK_MARK = "\0->"


def snapshot(path):
    """relative path -> bytes for every regular file below path (VCS metadata excluded)."""
    out = {}
    for dirpath, dirnames, filenames in os.walk(path):
        dirnames[:] = sorted(d for d in dirnames if d not in SKIP_DIRS)
        for fn in sorted(filenames):
            if fn in SKIP_DIRS:
                continue      # `.git` as a file (linked worktree, --separate-git-dir): VCS metadata as well
            full = os.path.join(dirpath, fn)
            rel = os.path.relpath(full, path)
            if os.path.islink(full):
                # the kind of a directory entry is part of the state: "<path>\0->" holds the link text
                out[rel + LINK_MARK] = os.readlink(full).encode("utf-8", "surrogateescape")
            try:
                with open(full, "rb") as fobj:
                    out[rel] = fobj.read()
            except OSError:
                out[rel] = None
    return out


def digest_snapshot(snap):
    h = hashlib.sha256()
    for rel in sorted(snap):
        h.update(rel.encode("utf-8", "surrogateescape"))
        h.update(b"\0")
        data = snap[rel]
        h.update(b"<none>" if data is None else hashlib.sha256(data).digest())
    return h.hexdigest()[:16]


def dir_digest(path):
    return digest_snapshot(snapshot(path))


def write_tree(path, files):
    """files: relative path -> bytes"""
    for rel, data in files.items():
        if rel.endswith(LINK_MARK):
            continue
        full = os.path.join(path, rel)
        os.makedirs(os.path.dirname(full), exist_ok=True)
        if rel + LINK_MARK in files:
            continue      # a symbolic link: its content is that of the target, written under the target's own name
        with open(full, "wb") as fobj:
            fobj.write(data)
    for rel, data in files.items():
        if rel.endswith(LINK_MARK):
            full = os.path.join(path, rel[:-len(LINK_MARK)])
            os.makedirs(os.path.dirname(full), exist_ok=True)
            if os.path.lexists(full):
                os.unlink(full)
            os.symlink(data.decode("utf-8", "surrogateescape"), full)


class Result:
    __slots__ = ("argv", "exit_code", "stdout", "stderr", "exc", "logs", "before", "after", "events")

    def __init__(self):
        self.exc = None
        self.events = []

    @property
    def changed(self):
        return self.before != self.after

    def log_value(self, prefix):
        """Value of the last log line that starts with prefix (e.g. 'New Version: ')."""
        for _lvl, _name, msg in reversed(self.logs):
            if msg.startswith(prefix):
                return msg[len(prefix):]
        return None

    def out_value(self, prefix):
        for line in self.stdout.splitlines():
            if line.startswith(prefix):
                return line[len(prefix):]
        return None

    def brief(self):
        return {"argv": self.argv, "exit": self.exit_code, "exc": self.exc,
                "stdout": self.stdout[-600:], "logs": [m for _l, _n, m in self.logs][-8:]}


class _WriteFault:
    """File-system fault seam: while installed, opening the planned file for writing fails with the planned errno (disk full,
    file made immutable, quota).  Reads, and writes to any other path, pass through.  With plan["mode"] == "read" it is the
    opening for reading that fails instead (permissions, a stale network mount), and writes pass through."""

    def __init__(self, cwd, plan):
        import builtins
        import io
        self.cwd = cwd
        self.target = os.path.realpath(os.path.join(cwd, plan["path"]))
        self.errno = plan.get("errno", errno.ENOSPC)
        self.on_read = plan.get("mode") == "read"
        self.fired = 0
        self._builtins, self._io = builtins, io
        self._orig_open = builtins.open
        self._orig_io_open = io.open

    def _wrap(self, orig):
        def opener(file, mode="r", *a, **kw):
            if isinstance(mode, str) and (any(ch in mode for ch in "wax+") != self.on_read) and \
                    isinstance(file, (str, bytes, os.PathLike)):
                try:
                    full = os.path.realpath(os.path.join(self.cwd, os.fsdecode(file)))
                except Exception:
                    full = None
                if full == self.target:
                    self.fired += 1
                    raise OSError(self.errno, os.strerror(self.errno) + " (injected)", os.fsdecode(file))
            return orig(file, mode, *a, **kw)
        return opener

    def install(self):
        self._builtins.open = self._wrap(self._orig_open)
        self._io.open = self._wrap(self._orig_io_open)

    def remove(self):
        self._builtins.open = self._orig_open
        self._io.open = self._orig_io_open


def invoke(cwd, argv, today, vcs_shim=None, hook_shim=None, glob_perm=None, now=None, environ=None, write_fault=None):
    """Run `bumpver <argv>` in-process with cwd as the project directory.
    environ: variables the process inherits for this one invocation (a release started from inside another tool's hook,
    a CI job that exports things)."""
    setup()
    import click.testing
    import bumpver.cli
    import bumpver.vcs
    import bumpver.hooks
    import bumpver.utils
    import bumpver.version

    res = Result()
    res.argv = list(argv)
    os.chdir(cwd)
    bumpver.version.TODAY = today
    if now is None:
        now = dt.datetime(today.year, today.month, today.day, 12, 0, 0)
    bumpver.utils.now = lambda: now
    bumpver.cli._VERBOSE = 0
    COLLECTOR.records = []
    bumpver.vcs.sp = vcs_shim if vcs_shim is not None else _ForbiddenSp("vcs")
    bumpver.hooks.sp = hook_shim if hook_shim is not None else _ForbiddenSp("hooks")
    if vcs_shim is not None:
        vcs_shim.begin(cwd, res.events)
    if hook_shim is not None:
        hook_shim.begin(cwd, res.events)
    if glob_perm is not None:
        orig_glob = _state["orig_glob"]

        def _glob(self, *a, **kw):
            items = list(orig_glob(self, *a, **kw))
            items.sort(key=str)
            return glob_perm(items)

        pathlib.Path.glob = _glob
    # `-vv` makes a real process call logging.basicConfig(level=DEBUG); our root handler turns basicConfig into a no-op,
    # so give the root logger the level the real process would have for this one invocation
    nverbose = sum(a.count("v") for a in argv if a.startswith("-v") and set(a[1:]) == {"v"}) + list(argv).count("--verbose")
    root = logging.getLogger()
    root.setLevel(logging.DEBUG if nverbose >= 2 else logging.INFO)
    res.before = snapshot(cwd)
    saved_env = {}
    for k, v in (environ or {}).items():
        saved_env[k] = os.environ.get(k)
        os.environ[k] = v
    if "TZ" in saved_env:
        time.tzset()       # the zone the process was started in
    wf = _WriteFault(cwd, write_fault) if write_fault else None
    try:
        runner = click.testing.CliRunner()
        if wf is not None:
            wf.install()
        try:
            r = runner.invoke(bumpver.cli.cli, list(argv), catch_exceptions=True)
        finally:
            if wf is not None:
                wf.remove()
                res.events.append({"kind": "io_fault", "path": write_fault["path"], "fired": wf.fired})
    finally:
        for k, v in saved_env.items():
            if v is None:
                os.environ.pop(k, None)
            else:
                os.environ[k] = v
        if "TZ" in saved_env:
            time.tzset()
        pathlib.Path.glob = _state["orig_glob"]
        bumpver.vcs.sp = _state["orig_sp_vcs"]
        bumpver.hooks.sp = _state["orig_sp_hooks"]
        bumpver.utils.now = _state["orig_now"]
        root.setLevel(logging.INFO)
    res.after = snapshot(cwd)
    res.exit_code = r.exit_code
    res.stdout = r.stdout
    try:
        res.stderr = r.stderr
    except Exception:
        res.stderr = ""
    if r.exception is not None and not isinstance(r.exception, SystemExit):
        res.exc = type(r.exception).__name__ + ": " + str(r.exception)[:200]
        if isinstance(r.exception, HarnessError):
            raise r.exception
    res.logs = list(COLLECTOR.records)
    for shim in (vcs_shim, hook_shim):
        if shim is not None and shim.harness_error:
            raise HarnessError(shim.harness_error)
    return res


class _ForbiddenSp:
    """Installed when a world has no VCS / hook shim: any spawn attempt behaves like a missing binary."""

    PIPE = subprocess.PIPE
    CalledProcessError = subprocess.CalledProcessError

    def __init__(self, what):
        self.what = what

    def _nope(self, *a, **kw):
        raise OSError(errno.ENOENT, "no such binary (simulated, %s)" % self.what)

    check_output = call = Popen = _nope


def child_env(locale="utf8", hashseed="0"):
    env = {
        "PATH": "/usr/bin:/bin",
        "PYTHONPATH": REPO_SRC,
        "PYTHONHASHSEED": str(hashseed),
        "HOME": "/nonexistent",
        "PYTHONDONTWRITEBYTECODE": "1",
        "GIT_CONFIG_GLOBAL": "/dev/null",
        "GIT_CONFIG_SYSTEM": "/dev/null",
    }
    if locale == "ascii":
        env.update({"LC_ALL": "C", "LANG": "C", "PYTHONUTF8": "0", "PYTHONCOERCECLOCALE": "0"})
    else:
        env.update({"LC_ALL": "C.UTF-8", "LANG": "C.UTF-8"})
    return env


def invoke_child(cwd, argv, locale="utf8", timeout=60, extra_env=None):
    """Run `python -m bumpver <argv>` as a real process. The caller passes --date explicitly."""
    env = child_env(locale)
    if extra_env:
        env.update(extra_env)
    res = Result()
    res.argv = list(argv)
    res.before = snapshot(cwd)
    proc = subprocess.run([PYTHON, "-m", "bumpver"] + list(argv), cwd=cwd, env=env,
                          stdout=subprocess.PIPE, stderr=subprocess.PIPE, timeout=timeout)
    res.after = snapshot(cwd)
    res.exit_code = proc.returncode
    res.stdout = proc.stdout.decode("utf-8", "replace")
    res.stderr = proc.stderr.decode("utf-8", "replace")
    res.logs = []
    for line in res.stderr.splitlines():
        if " - " in line:
            lvl, msg = line.split(" - ", 1)
            res.logs.append((lvl.strip(), "child", msg))
    return res
