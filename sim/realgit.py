"""Real git 2.39 in scratch repositories with pinned identity, dates and configuration (so that even
commit hashes replay), plus the pass-through hook runner for real /bin/sh hook scripts."""
import os
import subprocess

from . import invoker


def git_env(home, date, global_config=None):
    if not (1971 <= date.year <= 2098):
        # git cannot store every simulated date; map the others deterministically into its range
        import datetime as _dt
        date = _dt.date(1971, 1, 1) + _dt.timedelta(days=date.toordinal() % 40000)
    stamp = "%sT12:00:00 +0000" % date.isoformat()
    return {
        "GIT_CONFIG_GLOBAL": global_config or "/dev/null", "GIT_CONFIG_SYSTEM": "/dev/null", "GIT_CONFIG_NOSYSTEM": "1",
        "HOME": home, "GIT_TERMINAL_PROMPT": "0", "GIT_AUTHOR_NAME": "Sim Actor", "GIT_AUTHOR_EMAIL": "sim@example.com",
        "GIT_COMMITTER_NAME": "Sim Actor", "GIT_COMMITTER_EMAIL": "sim@example.com",
        "GIT_AUTHOR_DATE": stamp, "GIT_COMMITTER_DATE": stamp, "LC_ALL": "C.UTF-8", "LANG": "C.UTF-8",
        "PATH": "/usr/bin:/bin", "GIT_ADVICE": "0", "GIT_OPTIONAL_LOCKS": "0",
    }


class RealGit:
    def __init__(self, path, date, remote=True, gitfile=False, user_config=None):
        self.path = path
        self.date = date
        self.home = os.path.dirname(path)
        self.global_config = None
        if user_config:
            # the user's own ~/.gitconfig (pinned content): settings that change what git prints or does by default
            self.global_config = path + ".gitconfig"
            with open(self.global_config, "w") as fobj:
                fobj.write(user_config)
        self.remote_path = None
        self.has_remote = remote
        self.gitfile = gitfile      # `.git` is a file ("gitdir: ..."), as in linked worktrees, submodules, --separate-git-dir

    @property
    def env(self):
        return git_env(self.home, self.date, self.global_config)

    def set_date(self, date):
        self.date = date

    def git(self, *args, check=True, cwd=None):
        try:
            proc = subprocess.run(["git"] + list(args), cwd=cwd or self.path, env=self.env, stdout=subprocess.PIPE,
                                  stderr=subprocess.PIPE, timeout=60)
        except subprocess.TimeoutExpired:
            raise invoker.HarnessError("git %s timed out" % (args,))
        if check and proc.returncode != 0:
            raise invoker.HarnessError("git %s failed (%d): %s" % (args, proc.returncode, proc.stderr.decode("utf-8", "replace")[-400:]))
        return proc.stdout.decode("utf-8", "surrogateescape")

    def init(self):
        if self.gitfile:
            self.git("init", "-q", "-b", "main", "--separate-git-dir", self.path + ".gitdir")
        else:
            self.git("init", "-q", "-b", "main")
        self.git("config", "core.autocrlf", "false")
        self.git("config", "core.quotepath", "false")
        self.git("config", "commit.gpgsign", "false")
        self.git("config", "tag.gpgsign", "false")
        self.git("config", "core.hooksPath", "/dev/null")
        self.git("add", "-A")
        self.git("commit", "-q", "--allow-empty", "-m", "initial")
        if self.has_remote:
            self.remote_path = self.path + ".origin.git"
            self.git("init", "-q", "--bare", "-b", "main", self.remote_path, cwd=self.home)
            self.git("remote", "add", "origin", self.remote_path)
            self.git("push", "-q", "-u", "origin", "main")

    def commit_all(self, message):
        self.git("add", "-A")
        self.git("commit", "-q", "--allow-empty", "-m", message)

    def head(self):
        return self.git("rev-parse", "HEAD").strip()

    def branch(self):
        return self.git("rev-parse", "--abbrev-ref", "HEAD").strip()

    def tags(self):
        return [t for t in self.git("tag", "--list").split("\n") if t]

    def tags_merged(self):
        return [t for t in self.git("tag", "--list", "--merged").split("\n") if t]

    def tag_commit(self, name):
        return self.git("rev-list", "-n", "1", name).strip()

    def commit_count(self, rev="HEAD"):
        return int(self.git("rev-list", "--count", rev).strip())

    def files_of(self, rev="HEAD"):
        out = self.git("show", "--name-only", "--format=", "-z", rev)
        return sorted(p for p in out.split("\0") if p)

    def message_of(self, rev="HEAD"):
        return self.git("log", "-1", "--format=%B", rev)

    def status(self):
        # (the harness's own view must not depend on the user configuration under test)
        return self.git("-c", "status.showUntrackedFiles=normal", "-c", "color.ui=false", "status", "--porcelain")

    def state_digest(self):
        return invoker.digest_snapshot({"refs": self.git("show-ref", check=False).encode(),
                                        "head": self.git("rev-parse", "HEAD", check=False).encode()})


class PassthroughHooks:
    """Stands in for `subprocess` inside bumpver.hooks but runs the real script; records one event per spawn."""

    PIPE = subprocess.PIPE
    STDOUT = subprocess.STDOUT
    DEVNULL = subprocess.DEVNULL
    CalledProcessError = subprocess.CalledProcessError

    def __init__(self):
        self.cwd = None
        self.events = None
        self.harness_error = None

    def begin(self, cwd, events):
        self.cwd = cwd
        self.events = events

    def Popen(self, cmd, env=None, **kw):
        path = cmd if isinstance(cmd, str) else cmd[0]
        self.events.append({"kind": "hook", "path": os.path.relpath(str(path), self.cwd),
                            "old": (env or {}).get("BUMPVER_OLD_VERSION"), "new": (env or {}).get("BUMPVER_NEW_VERSION"),
                            "dir": invoker.dir_digest(self.cwd), "rc": None})
        return subprocess.Popen(cmd, env=env, **kw)
