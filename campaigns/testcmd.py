"""TESTCMD: chains of `bumpver test OLD PATTERN flags [--date D]` under a simulated clock.
Each step starts from the version the previous step announced.  Serves C01, C05, C02 (CLI level),
C14 (bump leg), C15 (PEP440 line), C17 (short chains)."""
import datetime as dt

import runner
from sim import invoker, adapter
from ref import pattern as rp, bump as rb, pep440, legacy as rl
from gen import patterns as gp

SV_KINDS = ["greater", "greater", "equal", "lower", "junk", "trailing", "pep_equal", "tag_down", "other_scheme"]


def render_forced(tree, state):
    """Render with every optional group present (used to build PEP 440-equal alternative spellings)."""
    out = []
    for node in tree:
        if node[0] == "lit":
            out.append(node[1])
        elif node[0] == "part":
            out.append(rp.render_part(node[1], state))
        else:
            out.append(render_forced(node[1], state))
    return "".join(out)


def possible_date(st):
    """Does the calendar part of this state denote a day that exists?  (A year moved by one keeps 29 February, day 366
    or week 53 only if the new year has them.)"""
    y = st.get("year_y")
    if y is not None:
        if st.get("month") is not None and st.get("dom") is not None:
            try:
                dt.date(y, st["month"], st["dom"])
            except ValueError:
                return False
        last = rp.cal_fields(dt.date(y, 12, 31))
        for f in ("doy", "week_w", "week_u"):
            if st.get(f) is not None and st[f] > last[f]:
                return False
    g = st.get("year_g")
    if g is not None and st.get("week_v") is not None and st["week_v"] > dt.date(g, 12, 28).isocalendar()[1]:
        return False
    return True


def derive_target(kind, tree, state, text):
    """A --set-version target of the given kind, or None when the pattern/state admits none."""
    fields = rp.fields_of(tree)
    st = dict(state)
    if kind == "equal":
        return text
    if kind == "junk":
        return "not-a-version"
    if kind == "trailing":
        return text + ".9"
    if kind == "other_scheme":
        for cand in ("v201712.0033-beta", "1.2.3", "2021.5"):
            if not rp.accepts(tree, cand):
                return cand
        return None
    if kind == "pep_equal":
        alt = render_forced(tree, st)
        if alt != text and rp.accepts(tree, alt) and pep440.is_pep440(alt) and pep440.is_pep440(text) \
                and pep440.cmp(alt, text) == 0:
            return alt
        return None
    if kind == "tag_down":
        order = ["dev", "alpha", "beta", "rc", "final", "post"]
        tag = st.get("tag")
        if "tag" in fields and tag in order and order.index(tag) > 0:
            st["tag"] = order[order.index(tag) - 1]
            if st["tag"] == "final" and "num" in st:
                st["num"] = 0
            return rp.render(tree, st)
        return None
    if kind == "greater":
        for f in ("major", "minor", "patch", "inc0", "inc1", "num"):
            if f in fields and not (f == "num" and st.get("tag", "x") == "final"):
                st[f] = st[f] + 1
                return rp.render(tree, st)
        if "bid" in fields and st["bid"].count("9") != len(st["bid"]) and int(st["bid"]) >= 1000:
            st["bid"] = rb.lexid_next(st["bid"])
            return rp.render(tree, st)
        if "year_y" in fields and st["year_y"] % 100 < 98:
            st["year_y"] += 1
            return rp.render(tree, st) if possible_date(st) else None
        return None
    if kind == "lower":
        for f in ("major", "minor", "patch", "inc0", "num"):
            if f in fields and st.get(f, 0) > 0:
                st[f] = st[f] - 1
                return rp.render(tree, st)
        if "year_y" in fields and st["year_y"] % 100 > 2:
            st["year_y"] -= 1
            return rp.render(tree, st) if possible_date(st) else None
        return None
    return None


BV_FIELD = {"tag": "tag", "bid": "bid"}


def facts_for(tree, old_state, new_state, flags, pattern):
    names = set(rp.parts_of(tree))
    f = {"pattern": pattern}
    week53 = False
    for st in (old_state, new_state):
        if st:
            for fld in ("week_w", "week_u"):
                if st.get(fld) == 53 and names & {"WW", "0W", "UU", "0U"}:
                    week53 = True
    f["week53"] = week53
    f["week0_pinned"] = bool(flags.get("pin_date")) and any((old_state or {}).get(fld) == 0 for fld in ("week_w", "week_u"))
    if new_state:
        zf = [n for n in rp.parts_of(tree)]
        f["all_parts_zero"] = bool(zf) and all(rp.part_is_zero(n, new_state) for n in zf)
    return f


def check_announced(ctx, tree, pattern, old_text, new_text, res_stdout, focus_facts, step_is_first, legacy=False):
    """Oracles that apply to any successfully announced version (C01 A1, C02 round trip, C15 line, C17)."""
    states = rp.recognise(tree, new_text)
    if not states:
        ctx.violation("C01", "announced_not_accepted", dict(focus_facts, old=old_text, new=new_text),
                      "announced %r is not accepted in full by pattern %r (old %r)" % (new_text, pattern, old_text))
        return None
    if len(states) > 1:
        ctx.count("ambiguous_parse")
    if pep440.cmp(new_text, old_text) <= 0:
        ctx.violation("C01", "not_strictly_greater", dict(focus_facts, old=old_text, new=new_text),
                      "announced %r is not strictly greater than %r (pattern %r)" % (new_text, old_text, pattern))
    # C02: adapter round trip on the announced text
    try:
        if not adapter.full_match(new_text, pattern):
            ctx.violation("C02", "render_not_recognised", dict(focus_facts, text=new_text),
                          "announced %r not fully matched by its own compiled pattern %r" % (new_text, pattern))
        else:
            vinfo = adapter.parse(new_text, pattern)
            again = adapter.fmt(vinfo, pattern)
            if again != new_text:
                ctx.violation("C02", "rerender_differs", dict(focus_facts, text=new_text, again=again),
                              "parse/format of %r gives %r (pattern %r)" % (new_text, again, pattern))
            st = states[0]
            d = vinfo._asdict()
            if "year" in d and "year_y" not in d:
                d["year_y"] = d["year"]
            bld_like = any(rp.PARTS[n][1] == "bld" or rp.PARTS[n][1].startswith("bldpad") for n in rp.parts_of(tree))
            for fld, val in st.items():
                if fld.startswith("__"):
                    continue
                have = d.get(fld)
                if fld == "bid" and bld_like:
                    have, val = int(have), int(val)
                if have != val:
                    ctx.violation("C02", "readback_mismatch", dict(focus_facts, text=new_text, field=fld),
                                  "%r read back with %s=%r, reference reads %r (pattern %r)" % (
                                      new_text, fld, have, val, pattern))
                    break
    except Exception as ex:
        if isinstance(ex, invoker.HarnessError):
            raise
        ctx.violation("C02", "render_not_recognised", dict(focus_facts, text=new_text, exc=type(ex).__name__),
                      "announced %r cannot be read back: %s: %s (pattern %r)" % (new_text, type(ex).__name__, ex, pattern))
    # C15: the PEP440 line (only `test` prints one)
    if res_stdout is not None and pep440.is_pep440(new_text):
        line = None
        for ln in res_stdout.splitlines():
            if ln.startswith("PEP440"):
                line = ln.split(":", 1)[1].strip()
        shown = line if line is not None else new_text
        if not pep440.is_pep440(shown) or pep440.cmp(shown, new_text) != 0:
            ctx.violation("C15", "pep440_line_differs", dict(focus_facts, text=new_text, shown=shown),
                          "PEP440 line %r does not denote the same version as %r" % (shown, new_text))
        elif shown != pep440.canonical(new_text):
            ctx.violation("C15", "pep440_line_not_canonical", dict(focus_facts, text=new_text, shown=shown),
                          "PEP440 line %r is not the canonical form %r" % (shown, pep440.canonical(new_text)))
    return states[0]


def expectation(ctx, tree, state, text, flags, clock, date_conflict=False):
    """Reference verdict for one bump: -> (kind, state|None, text|None); kind: ok | must_fail:* | unspecified:*"""
    if any(n.startswith("L.") for n in rp.parts_of(tree)):
        return "unspecified:legacy", None, None   # C20 states no bump rules for legacy patterns, only laws
    exp_state = exp_text = None
    kind = "ok"
    names = set(rp.parts_of(tree))
    inapplicable = [k for k, part in (("major", "MAJOR"), ("minor", "MINOR"), ("patch", "PATCH"))
                    if flags.get(k) and part not in names]
    if inapplicable:
        # The statement prescribes nothing for a flag whose part the pattern lacks: bumpver may refuse (test does)
        # or ignore the flag (update does).  Either is accepted; a success must follow the rules without the flag.
        flags = {k: v for k, v in flags.items() if k not in inapplicable}
        ctx.count("inapplicable_flag")
        kind = "ok?"
    try:
        if date_conflict:
            raise rb.MustFail("date_and_pin_date")
        exp_state = rb.bump(tree, state, flags, clock)
        exact = exp_state.pop("__exact_bid__")
        if exact:
            exp_text = rp.render(tree, exp_state)
            if exp_text == text or exp_text == "":
                raise rb.MustFail("no_change")
    except rb.MustFail as ex:
        kind = "must_fail:" + ex.reason
        exp_state = exp_text = None
        if inapplicable:
            ctx.probe("must_fail_flag_not_applicable")
    except rb.Unspecified as ex:
        kind = "unspecified:" + ex.cls
        exp_state = exp_text = None
        ctx.count("unspecified_" + ex.cls)
    return kind, exp_state, exp_text


def judge_bump(ctx, tree, pattern, state, text, flags, clock, delta, exp, exit_code, new_text, stdout, generated,
               abstract, fail_info=""):
    """Oracles for one automatic increment (no --set-version).  -> (state, text, generated) after the step,
    or None when the chain cannot continue."""
    exp_kind, exp_state, exp_text = exp
    fields = rp.fields_of(tree)
    base_facts = facts_for(tree, state, exp_state, flags, pattern)
    if exp_kind.startswith("must_fail"):
        ctx.probe(exp_kind.replace(":", "_"))
        ctx.nontriv(abstract + (exp_kind,))
        if exit_code == 0:
            ctx.violation("C05", "must_fail_but_succeeded", dict(base_facts, reason=exp_kind),
                          "rules say %s for %r %r flags=%s date=%s but bumpver announced %r" % (
                              exp_kind, text, pattern, flags, clock, new_text))
            st = check_announced(ctx, tree, pattern, text, new_text, stdout, base_facts, False)
            if st is None:
                return None
            return st, new_text, generated
        return state, text, generated
    if exit_code != 0 and exp_kind == "ok?":
        ctx.probe("must_fail_flag_not_applicable")
        ctx.nontriv(abstract + ("inapplicable_flag_refused",))
        return state, text, generated
    if exp_kind == "ok?":
        exp_kind = "ok"
    if exit_code != 0:
        if exp_kind == "ok" and exp_text is not None:
            legal = rp.accepts(tree, exp_text) and pep440.cmp(exp_text, text) > 0
            if legal:
                ctx.violation("C05", "must_succeed_but_failed", dict(base_facts, expected=exp_text),
                              "rules give %r for %r %r flags=%s date=%s but bumpver failed (%s)" % (
                                  exp_text, text, pattern, flags, clock, fail_info))
            else:
                ctx.count("gate_protected_failure")
                ctx.nontriv(abstract + ("gate",))
        return state, text, generated
    # success
    ctx.nontriv(abstract + ("ok",))
    st = check_announced(ctx, tree, pattern, text, new_text, stdout, base_facts, False)
    if st is None:
        return None
    if rb.cal_tuple(st, fields) < rb.cal_tuple(state, fields):
        ctx.violation("C14", "calendar_backwards", base_facts,
                      "calendar parts moved backwards: %r -> %r (date %s)" % (text, new_text, clock))
    if "bid" in fields:
        ob, nb = state["bid"], st["bid"]
        if not int(nb) > int(ob):
            ctx.violation("C17", "build_not_greater_int", dict(base_facts, old=ob, new=nb),
                          "BUILD %r -> %r does not grow numerically" % (ob, nb))
        if (((generated or len(ob) >= 4) and "BUILD" in rp.parts_of(tree)) or
                (generated and "BUILD" not in rp.parts_of(tree))) and not nb > ob:
            ctx.violation("C17", "build_not_greater_str", dict(base_facts, old=ob, new=nb),
                          "BUILD %r -> %r does not grow lexically" % (ob, nb))
        if int(ob) >= 1000 and len(nb) < len(ob):
            ctx.violation("C17", "build_lost_digits", dict(base_facts, old=ob, new=nb), "BUILD %r -> %r" % (ob, nb))
        if len(nb) > len(ob):
            ctx.probe("build_digit_expansion")
    if exp_kind == "ok":
        mism = None
        for f in fields:
            want = exp_state.get(f)
            if f == "bid" and want is None:
                continue
            if st.get(f) != want:
                mism = (f, st.get(f), want)
                break
        if mism:
            ctx.violation("C05", "part_mismatch", dict(base_facts, field=mism[0]),
                          "part %s is %r, rules say %r: %r %r flags=%s date=%s -> %r" % (
                              mism[0], mism[1], mism[2], text, pattern, flags, clock, new_text))
        elif exp_text is not None and new_text != exp_text:
            ctx.violation("C05", "group_omission", dict(base_facts, expected=exp_text),
                          "text %r differs from the documented rendering %r (pattern %r)" % (new_text, exp_text, pattern))
        if flags.get("pin_date"):
            ctx.probe("pin_date_success")
        if any(node[0] == "opt" for node in tree) and exp_text is not None and exp_text != render_forced(tree, exp_state):
            ctx.probe("optional_group_omitted")
        if delta < 0:
            ctx.probe("bump_after_clock_went_back")
    return st, new_text, True


def judge_set_version(ctx, tree, pattern, state, text, sv_kind, target, exit_code, new_text, stdout, abstract, base_facts):
    """--set-version: only C01 applies.  -> (state, text) after the step or None."""
    ctx.probe("sv_" + sv_kind)
    if exit_code == 0:
        if new_text != target:
            ctx.violation("C01", "set_version_not_announced", dict(base_facts, sv=sv_kind),
                          "--set-version %r announced %r" % (target, new_text))
        st = check_announced(ctx, tree, pattern, text, new_text, stdout, dict(base_facts, sv=sv_kind), False)
        ctx.nontriv(abstract + ("sv_ok",))
        if st is None:
            return None
        return st, new_text
    ctx.nontriv(abstract + ("sv_rejected",))
    return state, text


def step_clock(ctx, clock, delta, two_digit):
    try:
        new_clock = clock + dt.timedelta(days=delta)
    except OverflowError:
        new_clock = clock
    if two_digit and not (2001 <= new_clock.year <= 2099):
        new_clock = clock
    if new_clock.year < 1000 or new_clock.year > 9999:
        new_clock = clock
    if new_clock < clock:
        ctx.back_jumps += 1
    ctx.sim_days += abs((new_clock - clock).days)
    return new_clock


LEGACY_MIRROR = ("announced_not_accepted", "not_strictly_greater", "render_not_recognised", "rerender_differs",
                 "readback_mismatch", "set_version_not_announced")


def mirror_legacy(ctx, start):
    """C20 restates C01/C02's laws for legacy patterns: mirror this step's law violations under C20."""
    for v in list(ctx.violations[start:]):
        if v["property"] in ("C01", "C02") and v["kind"] in LEGACY_MIRROR:
            ctx.violation("C20", v["kind"], dict(v["facts"], legacy=True), v["detail"])


class TestCmd:
    def __init__(self, focus, quick, thorough, all_flag_subsets=False, sv_rate=0.2, legacy=False):
        self.focus = focus
        self.legacy = legacy
        self.name = "TESTCMD/" + focus
        self._quick = quick
        self._thorough = thorough
        self.all_flag_subsets = all_flag_subsets
        self.sv_rate = sv_rate

    def total(self, tier):
        return self._quick if tier == "quick" else self._thorough

    def deadline(self, tier):
        return 150 if tier == "quick" else 1500

    def gen(self, seed, index, tier):
        rng = runner.rng_for(seed, self.name, index)
        while True:
            if self.legacy:
                pat = {"pattern": rng.choice(gp.LEGACY_PATTERNS)}
                tree = rl.tokenize(pat["pattern"])
            else:
                pat = gp.gen_pattern(rng, reorder=rng.random() < 0.08)
                tree = rp.tokenize(pat["pattern"])
            if rp.parts_of(tree):
                break
        epoch = gp.gen_epoch(rng, gp.has_two_digit_year(tree))
        if self.legacy and not (2000 <= epoch.year <= 2098):
            epoch = dt.date(rng.randint(2000, 2098), epoch.month, min(epoch.day, 28))
        state_date = epoch
        if rng.random() < 0.12:
            state_date = epoch + dt.timedelta(days=rng.randint(1, 400))
            if gp.has_two_digit_year(tree) and state_date.year > 2098:
                state_date = epoch
        state = gp.gen_state(rng, tree, state_date)
        nops = rng.randint(1, 6)
        ops = []
        for _ in range(nops):
            op = {"flags": gp.gen_flags(rng, tree, self.all_flag_subsets and rng.random() < 0.5),
                  "delta": gp.gen_clock_delta(rng), "date_flag": rng.random() < 0.5,
                  "spell": rng.choice([0, 0, 0, 1, 2, 4, 3, 5])}
            if rng.random() < self.sv_rate:
                op["sv"] = rng.choice(SV_KINDS)
            if rng.random() < 0.03:
                op["date_and_pin"] = True
            if rng.random() < 0.1:
                op["verbose"] = rng.choice(["-v", "-vv"])    # must not change any outcome
            if rng.random() < 0.006:
                op["child"] = True     # fidelity: also run this step as a real `python -m bumpver` process
            if rng.random() < 0.08:
                # the zone of the machine that runs the release: a --date names a calendar day, not an instant
                op["tz"] = rng.choice(["JST-9", "NZST-12NZDT", "PST8PDT", "<+14>-14", "<-11>11", "UTC0"])
            if rng.random() < 0.04:
                op["malformed"] = rng.choice([["--date", "2021-13-45"], ["--date", "yesterday"], ["--tag", "gamma"],
                                              ["--tag", "ALPHA"], ["--date", "2021-02-30"]])
            ops.append(op)
        return {"pattern": pat["pattern"], "epoch": epoch.isoformat(), "state": state, "ops": ops}

    def shrink(self, case):
        """Simpler flags, clock moves and part values (op dropping is done by the generic shrinker)."""
        for i, op in enumerate(case["ops"]):
            for k in list(op.get("flags", {})):
                cand = dict(case)
                op2 = dict(op)
                op2["flags"] = {a: b for a, b in op["flags"].items() if a != k}
                cand["ops"] = case["ops"][:i] + [op2] + case["ops"][i + 1:]
                yield cand
            for key, val in (("delta", 0), ("date_flag", False), ("sv", None), ("date_and_pin", None), ("tz", None)):
                if op.get(key) not in (val, None):
                    cand = dict(case)
                    op2 = dict(op)
                    if val is None:
                        op2.pop(key, None)
                    else:
                        op2[key] = val
                    cand["ops"] = case["ops"][:i] + [op2] + case["ops"][i + 1:]
                    yield cand
        for f, val in case["state"].items():
            simple = {"major": 1, "minor": 0, "patch": 0, "inc0": 0, "inc1": 1, "num": 0, "bid": "1001", "tag": "final"}.get(f)
            if simple is not None and val != simple:
                if f == "tag" and case["state"].get("num"):
                    continue
                cand = dict(case)
                st = dict(case["state"])
                st[f] = simple
                cand["state"] = st
                yield cand

    def run(self, case, ctx):
        pattern = case["pattern"]
        tree = rl.tokenize_any(pattern)
        legacy = rl.is_legacy(pattern)
        clock = dt.date.fromisoformat(case["epoch"])
        state = dict(case["state"])
        text = rp.render(tree, state)
        two_digit = gp.has_two_digit_year(tree)
        d = invoker.new_dir("t")
        ctx.sample = {"campaign": self.name, "pattern": pattern, "start": text, "epoch": case["epoch"],
                      "ops": case["ops"][:3]}
        generated = False
        # C02 on the start version itself (rendered by the reference from boundary part values): bumpver's own pattern
        # must accept it in full, read every part back equal and re-render it byte for byte
        f0 = facts_for(tree, state, None, {}, pattern)
        try:
            if not adapter.full_match(text, pattern):
                ctx.violation("C02", "render_not_recognised", dict(f0, text=text, start=True),
                              "start version %r (reference rendering of %s) is not accepted by its pattern %r" % (text, state, pattern))
            else:
                vinfo = adapter.parse(text, pattern)
                again = adapter.fmt(vinfo, pattern)
                if again != text:
                    ctx.violation("C02", "rerender_differs", dict(f0, text=text, again=again, start=True),
                                  "start version %r re-renders as %r (pattern %r)" % (text, again, pattern))
                ctx.probe("start_version_round_trip")
        except invoker.HarnessError:
            raise
        except Exception as ex:
            ctx.violation("C02", "render_not_recognised", dict(f0, text=text, start=True, exc=type(ex).__name__),
                          "start version %r cannot be read with %r: %s" % (text, pattern, ex))
        for step, op in enumerate(case["ops"]):
            delta = op.get("delta", 0)
            clock = step_clock(ctx, clock, delta, two_digit)
            flags = dict(op.get("flags", {}))
            argv = ["test", text, pattern] + gp.flags_to_argv(flags, op.get("spell", 0))
            today = clock
            use_date = op.get("date_flag") and (not flags.get("pin_date") or op.get("date_and_pin"))
            if use_date:
                argv += ["--date", clock.isoformat()]
                today = dt.date(1999, 1, 1) if step % 2 == 0 else clock
            target = None
            if op.get("sv"):
                target = derive_target(op["sv"], tree, state, text)
                if target is not None:
                    argv += ["--set-version", target]
            if op.get("verbose"):
                argv.append(op["verbose"])
            if op.get("malformed"):
                # a malformed flag value is one of the "other cases": non-zero exit, nothing announced, nothing changed
                bad_argv = [a for a in argv if a not in ("--tag",)] if False else list(argv)
                for flag in ("--date", "--tag"):
                    if flag in bad_argv and flag == op["malformed"][0]:
                        i = bad_argv.index(flag)
                        del bad_argv[i:i + 2]
                bad_argv += op["malformed"]
                bres = invoker.invoke(d, bad_argv, today)
                ctx.invocations += 1
                ctx.event("malformed", bad_argv[3:], bres.exit_code)
                ctx.probe("malformed_flag_value")
                if bres.exit_code == 0 or bres.out_value("New Version: ") is not None or bres.changed:
                    ctx.violation("C01", "malformed_flag_accepted", {"pattern": pattern, "flag": op["malformed"][0]},
                                  "`bumpver %s` exit %s, announced %r" % (" ".join(bad_argv), bres.exit_code,
                                                                           bres.out_value("New Version: ")))
            exp = expectation(ctx, tree, state, text, flags, clock, bool(use_date and flags.get("pin_date")))
            nviol = len(ctx.violations)
            res = invoker.invoke(d, argv, today, environ={"TZ": op["tz"]} if op.get("tz") else None)
            ctx.invocations += 1
            if op.get("tz"):
                ctx.probe("zone_east_of_utc" if op["tz"] in ("JST-9", "NZST-12NZDT", "<+14>-14") else "zone_other")
            new_text = res.out_value("New Version: ")
            if legacy:
                # engine-dispatch consistency: the same bump through `update --dry` in a project configured with
                # (text, pattern) must agree with `test` on success/failure and on the announced version
                cfgtext = ('[bumpver]\ncurrent_version = "%s"\nversion_pattern = "%s"\n\n[bumpver.file_patterns]\n'
                           '"bumpver.toml" = [\'current_version = "{version}"\']\n' % (text, pattern))
                invoker.write_tree(d, {"bumpver.toml": cfgtext.encode()})
                ures = invoker.invoke(d, ["update", "--dry"] + argv[3:], today)
                ctx.invocations += 1
                unew = ures.log_value("New Version: ") if ures.exit_code == 0 else None
                ctx.event("update-dry", ures.exit_code, unew)
                import os as _os
                _os.unlink(_os.path.join(d, "bumpver.toml"))
                if (res.exit_code == 0) != (ures.exit_code == 0) or (res.exit_code == 0 and unew != new_text):
                    ctx.violation("C20", "engine_dispatch_inconsistent", {"pattern": pattern},
                                  "`test %s %s %s` exit %s -> %r, but `update --dry` in a project configured with them exit %s -> %r (%s)" % (
                                      text, pattern, argv[3:], res.exit_code, new_text, ures.exit_code, unew,
                                      ures.exc or [m for _l, _n, m in ures.logs][-2:]))
                ctx.probe("legacy_dispatch_compared")
            ctx.event(argv, res.exit_code, new_text)
            if op.get("child") and use_date and target is None:
                # the in-process seam must be faithful to a real process (same exit code, same announced lines)
                cres = invoker.invoke_child(d, argv, locale="utf8")
                ctx.invocations += 1
                ctx.probe("child_process_fidelity_sample")
                cnew = cres.out_value("New Version: ")
                if (cres.exit_code == 0) != (res.exit_code == 0) or cnew != new_text or \
                        cres.out_value("PEP440     : ") != res.out_value("PEP440     : "):
                    raise invoker.HarnessError("in-process and child process disagree on %s: exit %s/%s, new %r/%r" % (
                        argv, res.exit_code, cres.exit_code, new_text, cnew))
            rel = "same" if delta == 0 else ("fwd" if delta > 0 else "back")
            abstract = (tuple(sorted(set(rp.parts_of(tree)))), tuple(sorted(flags)), op.get("sv"), rel)
            ctx.state(abstract[:1] + (state.get("tag"),))
            ctx.transition(abstract + (res.exit_code,))
            base_facts = facts_for(tree, state, exp[1], flags, pattern)
            if res.before != res.after:
                ctx.violation("C01", "test_changed_files", base_facts, "`bumpver test` changed files")
            if res.exit_code == 0 and new_text is None:
                ctx.violation("C01", "exit0_without_version", base_facts, "exit 0 but no 'New Version:' line: %r" % res.stdout)
                break
            if target is not None:
                out = judge_set_version(ctx, tree, pattern, state, text, op["sv"], target, res.exit_code, new_text,
                                        res.stdout, abstract, base_facts)
                if legacy:
                    mirror_legacy(ctx, nviol)
                if out is None:
                    break
                if out[1] != text:
                    generated = False
                state, text = out
                continue
            out = judge_bump(ctx, tree, pattern, state, text, flags, clock, delta, exp, res.exit_code, new_text,
                             res.stdout, generated, abstract,
                             fail_info="exit %s %s" % (res.exit_code, res.exc or [m for _l, _n, m in res.logs][-2:]))
            if legacy:
                mirror_legacy(ctx, nviol)
                if res.exit_code != 0 and "bid" in rp.fields_of(tree) and state["bid"].count("9") != len(state["bid"]) \
                        and not flags.get("tag_num") and not (use_date and flags.get("pin_date")) and not op.get("malformed"):
                    # the build number always increases, so a bump of a valid version is always possible and greater
                    ctx.violation("C20", "legacy_bump_refused", {"pattern": pattern},
                                  "`test %s %s %s` (date %s) exit %s although the build number can always grow: %s" % (
                                      text, pattern, argv[3:], clock, res.exit_code, res.exc or [m for _l, _n, m in res.logs][-2:]))
                if res.exit_code == 0 and new_text is not None and pattern == "{pycalver}" and not new_text > text:
                    ctx.violation("C20", "pycalver_not_greater_as_string", {"pattern": pattern},
                                  "%r is not greater than %r as a plain string" % (new_text, text))
            if out is None:
                break
            state, text, generated = out
