"""SIBLINGS (C18): one abstract configuration serialised into every config syntax; the same history
is replayed in each sibling world and all siblings must agree."""
import os
import copy
import datetime as dt

import runner
from sim import invoker, fakevcs, adapter, world as simworld
from ref import pattern as rp, configsyn, udiff, legacy
from gen import patterns as gp, layouts
from campaigns import testcmd as tc

SIBLING_SYNTAXES = [("setup.cfg", "bumpver"), ("pyproject.toml", "bumpver"), ("bumpver.toml", "bumpver"),
                    (".bumpver.toml", "bumpver"), ("setup.cfg", "pycalver"), ("pycalver.toml", "pycalver")]


def sibling_project(project, syntax, section, rng_style):
    p = copy.deepcopy(project)
    old = project["syntax"]
    p["syntax"] = syntax
    cfg = p["cfg"]
    kind = (p.get("cfg_glob") or {}).get("kind", "glob")
    old_glob = layouts.config_glob_key(old, kind)
    new_glob = layouts.config_glob_key(syntax, kind)
    cfg["file_patterns"] = [[syntax if key == old else (new_glob if key == old_glob and p.get("cfg_glob") else key), pats]
                            for key, pats in cfg["file_patterns"]]
    if p.get("cfg_glob"):
        p["cfg_glob"]["key"] = new_glob
    explicit_self = any(key == syntax for key, _ in cfg["file_patterns"])
    if configsyn.is_toml(syntax):
        style = {"toml_literal": rng_style.random() < 0.5, "toml_inline": rng_style.random() < 0.5,
                 "toml_eq": rng_style.choice([" = ", " = ", "=", "  =  "]), "comment": rng_style.choice([None, "bumpver settings", "tag = true"]),
                 "trailing_comments": rng_style.random() < 0.3}
        if explicit_self:
            style["version_eq"] = " = "
        if syntax == "pyproject.toml":
            style["preamble"] = '[project]\nname = "demo"\n'
    else:
        q = rng_style.choice(['"', "'", ""])
        style = {"quote": q, "bool_true": rng_style.choice(configsyn.INI_TRUE), "bool_false": rng_style.choice(configsyn.INI_FALSE),
                 "version_quote": '"' if explicit_self else q, "ini_delim": rng_style.choice([" = ", " = ", "=", ": ", " : "]),
                 "comment": rng_style.choice([None, "bumpver settings", "tag = True"]),
                 # a single pattern written on the key's own line (`path = pattern`) instead of an indented list
                 "ini_inline": rng_style.random() < 0.4}
        if explicit_self:
            style["version_eq"] = " = "
        if rng_style.random() < 0.5:
            style["preamble"] = "[metadata]\nname = demo\n"
    if section == "pycalver":
        style["section"] = "pycalver"
    if p.get("no_files"):
        style["omit_empty_table"] = True
    p["style"] = style
    p["cfg_regime"] = rng_style.choice(["lf", "lf", "crlf"])
    return p


class Siblings:
    def __init__(self, focus, quick, thorough):
        self.name = "SIBLINGS/" + focus
        self._quick, self._thorough = quick, thorough

    def total(self, tier):
        return self._quick if tier == "quick" else self._thorough

    def deadline(self, tier):
        return 200 if tier == "quick" else 1700

    def gen(self, seed, index, tier):
        rng = runner.rng_for(seed, self.name, index)
        leg = rng.random() < 0.2
        project = layouts.gen_project(rng, mode="plain", syntaxes=["setup.cfg"], allow_mixed=False, vcs="maybe",
                                      allow_odd_paths=False, legacy=leg, max_files=5)
        cfg = project["cfg"]
        if rng.random() < 0.12:
            # no files besides the config file itself (the quantifier's "0 files"): no file_patterns section at all
            project["files"] = []
            cfg["file_patterns"] = []
            project["cfg_glob"] = None
            project["extra"] = {}
            project["no_files"] = True
        if not project.get("no_files") and rng.random() < 0.15:
            # a file that is listed without any pattern (`notes.txt =` / `"notes.txt" = []`): an entry all the same
            project["extra"] = dict(project.get("extra") or {}, **{"listed_only.txt": "nothing to see\n"})
            cfg["file_patterns"] = list(cfg["file_patterns"])
            cfg["file_patterns"].insert(rng.randint(0, len(cfg["file_patterns"])), ["listed_only.txt", []])
            project["empty_entry"] = True
        # settings space incl. invalid combinations and missing optional keys
        for k in ("commit", "tag", "push"):
            r = rng.random()
            if r < 0.3:
                cfg.pop(k, None)
            else:
                cfg[k] = rng.random() < 0.6
        if rng.random() < 0.5:
            cfg["tag_scope"] = rng.choice(["default", "global", "branch"])
        if rng.random() < 0.5:
            cfg["commit_message"] = rng.choice(["bump {old_version} -> {new_version}", "release {new_version}",
                                                "chore: version {new_version_pep440} (was {old_version_pep440})",
                                                "release {new_version} #minor [skip ci]", "bump; {new_version} ; done",
                                                "v{new_version} 100% = ok: yes",
                                                # quote characters at the ends of a value: stripped after parsing, whatever the syntax said
                                                "release '{new_version}'", "'{new_version}' is out", "say \"{new_version}\""])
        if rng.random() < 0.5:
            cfg["tag_message"] = rng.choice(["rel {new_version}", "{new_version}", "", "tag {new_version} # stable", "a;b {new_version}",
                                             "tag '{new_version}'"])
        if rng.random() < 0.3:
            cfg["pre_commit_hook"] = "pre.sh"
        if rng.random() < 0.3:
            cfg["post_commit_hook"] = "post.sh"
        if (cfg.get("commit") or rng.random() < 0.3) and project["vcs"] is None:
            project["vcs"] = {"personality": "git", "remote": True}
        tree = legacy.tokenize_any(project["version_pattern"])
        ops = [{"op": "show"}]
        for _ in range(rng.randint(1, 3)):
            ops.append({"op": "update", "flags": gp.gen_flags(rng, tree), "delta": gp.gen_clock_delta(rng),
                        "dry": rng.random() < 0.4})
        ops.append({"op": "show"})
        return {"project": project, "ops": ops, "style_seed": rng.randrange(1 << 30)}

    def run(self, case, ctx):
        import random
        project = case["project"]
        tree = legacy.tokenize_any(project["version_pattern"])
        worlds = []
        srng = random.Random(case["style_seed"])
        for syntax, section in SIBLING_SYNTAXES:
            p = sibling_project(project, syntax, section, srng)
            w = simworld.World(p)
            w.materialise()
            invoker.write_tree(w.dir, {"pre.sh": b"#!/bin/sh\n", "post.sh": b"#!/bin/sh\n"})
            if w.repo is not None:
                w.repo.baseline(w.dir)
            worlds.append((syntax + "[" + section + "]", w))
        ctx.sample = {"campaign": self.name, "pattern": project["version_pattern"], "settings": {
            k: project["cfg"].get(k) for k in ("commit", "tag", "push", "tag_scope", "commit_message", "tag_message")},
            "files": {k: v for k, v in project["cfg"]["file_patterns"]}, "siblings": [n for n, _ in worlds]}
        settings_key = tuple(project["cfg"].get(k) for k in ("commit", "tag", "push", "tag_scope"))
        ctx.state((settings_key, legacy.is_legacy(project["version_pattern"])))
        # ---- parsed configuration, field by field
        parsed = []
        for name, w in worlds:
            try:
                _ctx, cfg = adapter.load_config(w.dir)
            except Exception as ex:
                if isinstance(ex, invoker.HarnessError):
                    raise
                cfg = "EXC:" + type(ex).__name__
            ctx.invocations += 1
            if cfg is None or isinstance(cfg, str):
                parsed.append((name, w, cfg))
                continue
            d = cfg._asdict()
            fp = {}
            for path, pats in d.pop("file_patterns").items():
                fp[path] = [p.raw_pattern for p in pats]
            d["tag_scope"] = str(getattr(d["tag_scope"], "value", d["tag_scope"]))
            own = fp.pop(w.syntax, None)
            parsed.append((name, w, (d, fp, own)))
        ref_name, ref_w, ref = parsed[0]
        for name, w, got in parsed[1:]:
            if (got is None or isinstance(got, str)) != (ref is None or isinstance(ref, str)):
                ctx.violation("C18", "config_accepted_differently", {"a": ref_name, "b": name},
                              "%s loads as %s but %s loads as %s" % (ref_name, "invalid" if not isinstance(ref, tuple) else "valid",
                                                                    name, "invalid" if not isinstance(got, tuple) else "valid"))
                continue
            if not isinstance(got, tuple):
                continue
            for key in ref[0]:
                if ref[0][key] != got[0][key]:
                    ctx.violation("C18", "setting_differs", {"a": ref_name, "b": name, "key": key},
                                  "%s: %s reads %r, %s reads %r" % (key, ref_name, ref[0][key], name, got[0][key]))
            if ref[1] != got[1]:
                ctx.violation("C18", "file_patterns_differ", {"a": ref_name, "b": name},
                              "file patterns: %s reads %r, %s reads %r" % (ref_name, ref[1], name, got[1]))
        for name, w, got in parsed:
            if isinstance(got, tuple):
                own = got[2]
                content = invoker.snapshot(w.dir)[w.syntax].decode("utf-8")
                vline = "\n".join(ln for ln in content.splitlines() if ln.startswith("current_version"))
                if not own or not any(adapter.search_pattern_finds(project["version_pattern"], raw, vline) for raw in own):
                    ctx.violation("C18", "self_pattern_missing", {"b": name},
                                  "%s: no pattern for the config file's own current_version line (%r)" % (name, own))
        valid = isinstance(ref, tuple)
        ctx.probe("config_valid" if valid else "config_invalid_everywhere")
        # ---- the same history in every sibling
        clock = dt.date.fromisoformat(project["epoch"])
        two_digit = gp.has_two_digit_year(tree)
        for op in case["ops"]:
            if op["op"] == "show":
                argv = ["show"]
            else:
                clock = tc.step_clock(ctx, clock, op.get("delta", 0), two_digit)
                argv = ["update"] + gp.flags_to_argv(op.get("flags", {})) + (["--dry"] if op.get("dry") else [])
            outcomes = []
            for name, w in worlds:
                shim = fakevcs.VcsShim(w.repo) if w.repo is not None else None
                res = invoker.invoke(w.dir, argv, clock, shim, fakevcs.HookShim({}))
                ctx.invocations += 1
                cfgname = w.syntax

                def norm(s):
                    return s.replace(cfgname, "<CFG>") if isinstance(s, str) else s

                vcs_ev = [[norm(a) for a in e["argv"]] for e in res.events if e["kind"] == "vcs" and e["role"] in fakevcs.MUTATING]
                for ev in vcs_ev:
                    pass
                vcs_ev = sorted(vcs_ev, key=lambda a: (a[1] != "add", a)) if vcs_ev else vcs_ev
                adds = sorted(a for a in vcs_ev if a[1] == "add")
                rest = [a for a in vcs_ev if a[1] != "add"]
                hooks = [(e["path"], e["old"], e["new"]) for e in res.events if e["kind"] == "hook"]
                others = {p: d for p, d in res.after.items() if p != cfgname}
                diff_other = None
                if op.get("dry") and res.exit_code == 0:
                    try:
                        diff_other = [(p, h) for p, h in udiff.parse(res.stdout) if p != cfgname]
                    except udiff.DiffError as ex:
                        diff_other = "malformed: %s" % ex
                shown = (res.out_value("Current Version: "), res.out_value("PEP440         : ")) if op["op"] == "show" else None
                outcomes.append((name, {"exit": res.exit_code, "old": res.log_value("Old Version: "),
                                        "new": res.log_value("New Version: "), "show": shown,
                                        "files": invoker.digest_snapshot(others), "adds": adds, "vcs": rest, "hooks": hooks,
                                        "diff": diff_other, "config_changed": res.before.get(cfgname) != res.after.get(cfgname)}))
            ref_name, ref_o = outcomes[0]
            ctx.event(argv, ref_o["exit"], ref_o["old"], ref_o["new"], ref_o["files"])
            ctx.nontriv((settings_key, op["op"], bool(op.get("dry")), ref_o["exit"] == 0, tuple(sorted(op.get("flags", {}))),
                         legacy.is_legacy(project["version_pattern"])))
            ctx.transition((settings_key, op["op"], ref_o["exit"]))
            for name, o in outcomes[1:]:
                for key in ref_o:
                    if ref_o[key] != o[key]:
                        ctx.violation("C18", "behaviour_differs", {"a": ref_name, "b": name, "key": key, "op": op["op"]},
                                      "%s: %s on %s gives %r but on %s gives %r" % (key, argv, ref_name, ref_o[key], name, o[key]))
                        break
            if any(v["property"] == "C18" for v in ctx.violations):
                break
