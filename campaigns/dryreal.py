"""DRYREAL (C13): forked worlds - `update --dry ARGS` on one copy, `update ARGS` on the other."""
import datetime as dt

import runner
from sim import invoker, fakevcs, world as simworld
from ref import pattern as rp, udiff, legacy
from gen import patterns as gp, layouts
from campaigns import testcmd as tc

SEP = {"lf": "\n", "crlf": "\r\n", "cr": "\r"}


class DryReal:
    def __init__(self, focus, quick, thorough):
        self.name = "DRYREAL/" + focus
        self._quick, self._thorough = quick, thorough

    def total(self, tier):
        return self._quick if tier == "quick" else self._thorough

    def deadline(self, tier):
        return 170 if tier == "quick" else 1500

    def gen(self, seed, index, tier):
        rng = runner.rng_for(seed, self.name, index)
        leg = rng.random() < 0.25
        project = layouts.gen_project(rng, mode=rng.choice(["plain", "bytes"]), allow_mixed=False,
                                      vcs=rng.choice(["none", "fake"]), legacy=leg,
                                      allow_odd_paths=True, invalid_utf8=True)
        cg = project.get("cfg_glob")
        if cg and rng.random() < 0.6:
            # the config file has an entry of its own, under its exact name, whose only pattern is for another line: bumpver
            # then adds no pattern for the current_version line - in a dry run and in a real run alike
            old_key = cg["key"]
            cg["key"], cg["kind"] = project["syntax"], "exact"
            project["cfg"]["file_patterns"] = [[project["syntax"] if k == old_key else k, v]
                                               for k, v in project["cfg"]["file_patterns"]]
            project["own_entry_without_version_line"] = True
        if project["vcs"] is not None and (any(ch in f["path"] for f in project["files"] for ch in " '\"") or
                                           any(ord(ch) > 127 for f in project["files"] for ch in f["path"])):
            project["vcs"] = None
            for k in ("commit", "tag", "push"):
                if k in project["cfg"]:
                    project["cfg"][k] = False
        tree = legacy.tokenize_any(project["version_pattern"])
        ops = []
        for _ in range(rng.randint(1, 3)):
            op = {"op": "fork", "flags": gp.gen_flags(rng, tree), "delta": gp.gen_clock_delta(rng)}
            if rng.random() < 0.15:
                op["sv"] = rng.choice(tc.SV_KINDS)
            r = rng.random()
            if r < 0.2:
                op["perturb"] = "stale"      # a partial-pattern occurrence still shows an older value
            elif r < 0.3:
                op["perturb"] = "break"      # a pattern of some file has no match
            elif r < 0.45:
                op["perturb"] = "tag_collision"   # the version about to be announced already exists as a tag elsewhere
                op["collision_flag"] = rng.choice([["--tag-scope", "branch"], ["--ignore-vcs-tag"]])
            elif r < 0.55:
                op["perturb"] = "remote_tag"      # a colleague has released in the meantime; the tag arrives with the fetch
            elif r < 0.62:
                op["perturb"] = "dead_glob"       # a glob entry that matches no file at all (docs/*.rst after the docs moved)
            op["pick"] = rng.randrange(1000)
            ops.append(op)
        return {"project": project, "ops": ops}

    def run(self, case, ctx):
        project = case["project"]
        base = simworld.World(project)
        tree = base.vtree
        pattern = base.vpattern
        state = dict(project["state"])
        text = rp.render(tree, state)
        clock = dt.date.fromisoformat(project["epoch"])
        two_digit = gp.has_two_digit_year(tree)
        regime = {f["path"]: f["regime"] for f in project["files"]}
        regime[base.syntax] = project.get("cfg_regime", "lf")
        ctx.sample = {"campaign": self.name, "pattern": pattern, "start": text, "ops": case["ops"][:2],
                      "files": sorted(regime)}
        if project.get("invalid_utf8"):
            ctx.probe("file_with_invalid_utf8_byte")
        if project.get("own_entry_without_version_line"):
            ctx.probe("config_entry_that_skips_the_version_line")
        for op in case["ops"]:
            clock = tc.step_clock(ctx, clock, op.get("delta", 0), two_digit)
            flags = dict(op.get("flags", {}))
            flags.pop("pin_date", None) if op.get("delta", 0) and False else None
            args = gp.flags_to_argv(flags)
            if not flags.get("pin_date"):
                args += ["--date", clock.isoformat()]
            if op.get("sv"):
                target = tc.derive_target(op["sv"], tree, state, text)
                if target is not None:
                    args += ["--set-version", target]
            override = None
            perturb = op.get("perturb")
            broken = None
            if perturb == "stale":
                cands = []
                for f in project["files"]:
                    for ln in f["lines"]:
                        for sg in ln["segs"]:
                            if not isinstance(sg, str) and not sg["slot"].startswith("{") and sg["slot"] != pattern:
                                cands.append((f["path"], sg["slot"]))
                cands = sorted(set(cands))
                if cands:
                    path_r = cands[op.get("pick", 0) % len(cands)]
                    rtree = legacy.tokenize_any(path_r[1])
                    st2 = dict(state)
                    for fld in rp.fields_of(rtree):
                        if fld in ("year_y", "year_g") and st2.get(fld, 0) % 100 > 2:
                            st2[fld] -= 1
                            break
                        if fld in ("major", "minor", "patch", "inc0") and st2.get(fld, 0) > 0:
                            st2[fld] -= 1
                            break
                        if fld == "month" and st2.get(fld, 0) > 1:
                            st2[fld] -= 1
                            break
                    if st2 != state:
                        override = {path_r: st2}
                        ctx.probe("stale_partial_occurrence")
            proj_use = project
            if perturb == "dead_glob":
                import copy as _copy
                proj_use = _copy.deepcopy(project)
                proj_use["cfg"]["file_patterns"] = list(proj_use["cfg"]["file_patterns"]) + [["nowhere/*.rst", ["{version}"]]]
                ctx.probe("glob_entry_without_any_file")
            wa = simworld.World(proj_use)
            wa.materialise(state, text, override)
            wb = simworld.World(proj_use)
            wb.materialise(state, text, override)
            if perturb == "break":
                from campaigns import faultpos
                fl = faultpos.enumerate_faults(project)
                fl = [x for x in fl if x["kind"] == "break"]
                if fl:
                    broken = fl[op.get("pick", 0) % len(fl)]
                    if faultpos.apply_fault(wa, project, broken) is None or faultpos.apply_fault(wb, project, broken) is None:
                        broken = None
                    else:
                        ctx.probe("forked_with_broken_pattern")
                        for w_ in (wa, wb):
                            if w_.repo is not None:
                                w_.repo.baseline(w_.dir)
            if perturb == "tag_collision" and wa.repo is not None and not op.get("sv"):
                exp = tc.expectation(ctx, tree, state, text, flags, clock, False)
                if exp[0] == "ok" and exp[2]:
                    for w_ in (wa, wb):
                        w_.repo.switch("other", create_from=w_.repo.head)
                        cid = w_.repo.new_commit("elsewhere", [])
                        w_.repo.tags[exp[2]] = cid
                        w_.repo.switch("main")
                        w_.repo.commit_log = []
                    args = args + list(op.get("collision_flag", []))
                    ctx.probe("forked_with_tag_collision")
            if perturb == "remote_tag" and wa.repo is not None and wa.repo.remote and not op.get("sv"):
                exp = tc.expectation(ctx, tree, state, text, {}, clock, False)
                if exp[0] == "ok" and exp[2]:
                    for w_ in (wa, wb):
                        w_.repo.pending_remote_tags = [exp[2]]
                    ctx.probe("forked_with_unfetched_remote_tag")
            shim_a = fakevcs.VcsShim(wa.repo) if wa.repo is not None else None
            shim_b = fakevcs.VcsShim(wb.repo) if wb.repo is not None else None
            # the real clock of both runs: the day itself, or (when --date says which day to use) some other day - calendar
            # parts of file patterns that the version does not carry are then a matter of the clock alone, in both runs alike
            real_today = clock
            if "--date" in args and op.get("pick", 0) % 3 == 0:
                real_today = clock - dt.timedelta(days=400 + op.get("pick", 0) % 900) if clock.year > 1002 else clock
                ctx.probe("date_flag_differs_from_clock")
            ra = invoker.invoke(wa.dir, ["update", "--dry"] + args, real_today, shim_a, fakevcs.HookShim({}))
            rb_ = invoker.invoke(wb.dir, ["update"] + args, real_today, shim_b, fakevcs.HookShim({}))
            ctx.invocations += 2
            ctx.event(args, ra.exit_code, rb_.exit_code, invoker.digest_snapshot(rb_.after))
            facts = {"pattern": pattern, "legacy": legacy.is_legacy(pattern),
                     # click.echo strips ANSI escape sequences from non-tty output (known finding F17)
                     "ansi_escape": any(b"\x1b" in (data or b"") for data in ra.before.values())}
            abstract = (tuple(sorted(set(rp.parts_of(tree)))), tuple(sorted(flags)), op.get("sv"),
                        tuple(sorted(set(regime.values()))), project["vcs"] is not None)
            ctx.transition(abstract + (ra.exit_code, rb_.exit_code))
            if ra.changed:
                ctx.violation("C13", "dry_changed_files", facts, "`update --dry %s` changed files" % args)
            if [e for e in ra.events if e["kind"] == "hook" or (e["kind"] == "vcs" and e["role"] in fakevcs.MUTATING)]:
                ctx.violation("C13", "dry_mutated_vcs", facts, "`update --dry` issued a mutating VCS command or ran a hook")
            if rb_.exit_code != 0 and rb_.changed and any(
                    m.startswith("No match for pattern") or m.startswith("No patterns matched for file") for _l, _n, m in rb_.logs):
                # C06 itself (and not the dry/real disagreement of F19): a real run that stops over a pattern or file problem
                # has written nothing
                ctx.violation("C06", "failed_update_changed_files", {"pattern": pattern, "legacy": legacy.is_legacy(pattern)},
                              "`update %s` exited %s over a pattern that does not match, after changing %s" % (
                                  args, rb_.exit_code, sorted(k for k in rb_.after if rb_.after.get(k) != rb_.before.get(k))[:4]))
                continue
            if ra.exit_code != 0:
                ctx.probe("dry_reported_error")
                # known finding F19: a file whose occurrences already show what the new version renders to
                facts["file_already_current"] = bool(override) and all(
                    rb_.after.get(pth) == rb_.before.get(pth) for (pth, _rg) in override)
                # the same defect reached another way (the current version comes from a VCS tag that is ahead of the files):
                # the file the dry run complains about is one the real run had nothing to change in
                for _l, _n, msg in ra.logs:
                    if msg.startswith("No patterns matched for file '") and msg.endswith("'"):
                        named = msg[len("No patterns matched for file '"):-1]
                        if rb_.exit_code == 0 and named in rb_.before and rb_.after.get(named) == rb_.before.get(named):
                            facts["file_already_current"] = True
                if rb_.changed or rb_.exit_code == 0:
                    # C06: whenever --dry reports an error the real run changes nothing either
                    ctx.violation("C06", "dry_error_but_real_changed", facts,
                                  "`update --dry %s` exited %s but the real run exited %s and %s files" % (
                                      args, ra.exit_code, rb_.exit_code, "changed" if rb_.changed else "left"))
                continue
            ctx.nontriv(abstract)
            ctx.probe("dry_ok_forked")
            if rb_.exit_code != 0:
                ctx.violation("C13", "dry_ok_but_real_failed", facts,
                              "`update --dry %s` exited 0 but the real run exited %s (%s)" % (
                                  args, rb_.exit_code, rb_.exc or [m for _l, _n, m in rb_.logs][-2:]))
                continue
            try:
                parsed = udiff.parse(ra.stdout)
            except udiff.DiffError as ex:
                ctx.violation("C13", "diff_malformed", facts, "printed diff is not a well-formed unified diff: %s" % ex)
                continue
            predicted = dict(ra.before)
            seen_paths = set()
            bad = False
            for path, hunks in parsed:
                if path in seen_paths:
                    ctx.probe("file_twice_in_diff")
                seen_paths.add(path)
                if path not in ra.before:
                    ctx.violation("C13", "diff_unknown_file", dict(facts, path=path), "diff names %r, not a project file" % path)
                    bad = True
                    break
                sep = SEP[regime.get(path, "lf")]
                old_lines = predicted[path].decode("utf-8", "surrogateescape").split(sep)
                try:
                    new_lines = udiff.apply(old_lines, hunks)
                except udiff.DiffError as ex:
                    ctx.violation("C13", "diff_does_not_apply", dict(facts, path=path, regime=regime.get(path),
                                                                     ansi_escape=b"\x1b" in ra.before.get(path, b"")),
                                  "diff for %r does not apply to the current file: %s" % (path, ex))
                    bad = True
                    break
                predicted[path] = sep.join(new_lines).encode("utf-8", "surrogateescape")
                if path in base.links:
                    predicted[base.links[path]] = predicted[path]     # written through the link
            if bad:
                continue
            if predicted != rb_.after:
                diff = sorted(p for p in set(predicted) | set(rb_.after) if predicted.get(p) != rb_.after.get(p))
                ctx.violation("C13", "diff_differs_from_real_run", dict(facts, path=diff[0], regime=regime.get(diff[0]),
                                                                        ansi_escape=b"\x1b" in ra.before.get(diff[0], b"")),
                              "applying the --dry diff does not give the files of the real run: %s (dry said %r, real %r)" % (
                                  diff[:3], predicted.get(diff[0], b"")[:120], rb_.after.get(diff[0], b"")[:120]))
                continue
            new_text = rb_.log_value("New Version: ")
            st = rp.recognise(tree, new_text) if new_text else []
            if st:
                state, text = st[0], new_text
