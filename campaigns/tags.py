"""TAGS (C09): tag sets over branches, all three scopes, --ignore-vcs-tag, config below/equal/above
the tags; FakeRepo (git personality) and a real-git leg that also validates FakeRepo's answers."""
import os
import datetime as dt

import runner
from sim import invoker, fakevcs, realgit
from ref import pattern as rp, pep440
from gen import patterns as gp
from campaigns import testcmd as tc

JUNK = ["foo", "latest", "v", "release-candidate", "1.2.3.4.5.6.7", "nightly-2021", "v1", "0", "tip", "vv1.2.3", "x" * 40]
OTHER_SCHEME = ["v201712.0033-beta", "1.2.3", "2021.5", "v2020.1001", "0.1.0rc1", "20.8.1"]


def vary(rng, tree, state):
    """A state near `state` (some part moved up or down)."""
    st = dict(state)
    fields = rp.fields_of(tree)
    for _ in range(rng.randint(1, 2)):
        f = rng.choice(fields)
        if f in ("major", "minor", "patch", "inc0", "num"):
            st[f] = max(0, st.get(f, 0) + rng.choice([-3, -1, 1, 1, 2, 10]))
        elif f == "inc1":
            st[f] = max(1, st.get(f, 1) + rng.choice([-1, 1, 2]))
        elif f == "bid":
            st[f] = str(max(1001, int(st[f]) + rng.choice([-7, -1, 1, 5, 1000]))) if int(st[f]) >= 1000 else st[f]
        elif f == "year_y":
            st[f] = min(2098, max(2001, st[f] + rng.choice([-2, -1, 1, 1])))
        elif f == "tag":
            st[f] = rng.choice(["final", "alpha", "beta", "rc", "post", "dev"])
            if st[f] == "final" and "num" in st:
                st["num"] = 0
        elif f == "month":
            st[f] = rng.randint(1, 12)
            if "dom" in st:
                st["dom"] = min(st["dom"], 28)
        elif f == "dom":
            st[f] = rng.randint(1, 28)
    if st.get("tag") == "final" and "num" in st:
        st["num"] = 0
    # keep the varied state a possible date (29 February / day 366 of the start state need not exist in another year)
    if (st.get("year_y"), st.get("month")) != (state.get("year_y"), state.get("month")) and st.get("dom", 0) > 28:
        st["dom"] = 28
    if st.get("year_y") != state.get("year_y") and st.get("doy", 0) > 365:
        st["doy"] = 365
    return st


def gen_tagset(rng, tree, state, branches):
    tags = []
    n = rng.choice([0, 0, 1, 2, 3, 5, 8, 12, 20, 30])
    names = set()
    for _ in range(n):
        r = rng.random()
        kind = "valid"
        if r < 0.55:
            name = rp.render(tree, vary(rng, tree, state))
        elif r < 0.65:
            st = vary(rng, tree, state)
            name = tc.render_forced(tree, st)
            kind = "respelled" if name != rp.render(tree, st) else "valid"
        elif r < 0.78:
            name = rng.choice(OTHER_SCHEME)
            kind = "other"
        elif r < 0.90:
            name = rng.choice(JUNK)
            kind = "junk"
        else:
            st = dict(state)
            if "month" in st and "dom" in st:
                st["month"], st["dom"] = rng.choice([(2, 30), (2, 31), (4, 31), (6, 31), (11, 31)])
                name = rp.render(tree, st)
                kind = "impossible"
            elif "doy" in st:
                st["doy"] = 366
                st["year_y"] = 2021 if "year_y" in st else st.get("year_y")
                name = rp.render(tree, st)
                kind = "impossible"
            else:
                name = rng.choice(JUNK)
                kind = "junk"
        if name in names or not name or " " in name:
            continue
        names.add(name)
        tags.append({"name": name, "kind": kind, "branch": rng.choice(branches), "depth": rng.randint(0, 2)})
        if kind in ("valid", "respelled") and rng.random() < 0.2:
            # another project's / an older convention's spelling of the very same version ("1.3.0" beside "v1.3.0"): equal
            # as a version, not a tag of this pattern, and listed before it
            cands = [name[1:], "V" + name[1:]] if name[:1] == "v" else ["v" + name, name + ".0", "V" + name]
            rng.shuffle(cands)
            for cand in cands:
                if cand and cand not in names and not rp.accepts(tree, cand) and pep440.is_pep440(cand) and \
                        pep440.is_pep440(name) and pep440.cmp(cand, name) == 0:
                    names.add(cand)
                    tags.append({"name": cand, "kind": "equal_other", "branch": rng.choice(branches), "depth": rng.randint(0, 2)})
                    break
    return tags


def current_reference(tree, cfg_text, tags, reachable, scope, ignore, impossible_matches):
    """Set of acceptable answers for 'the version this run starts from'."""
    if ignore:
        return {cfg_text}
    pool = [t for t in tags if (t["name"] in reachable or scope != "branch")]
    matching = []
    for t in pool:
        if not rp.accepts(tree, t["name"]):
            continue
        if t["kind"] == "impossible" and not impossible_matches:
            continue
        matching.append(t["name"])
    if not matching:
        return {cfg_text}
    best = matching[0]
    for m in matching[1:]:
        if pep440.cmp(m, best) > 0:
            best = m
    maximal = {m for m in matching if pep440.cmp(m, best) == 0}
    if scope == "default":
        c = pep440.cmp(best, cfg_text)
        if c > 0:
            return maximal
        if c == 0:
            return maximal | {cfg_text}
        return {cfg_text}
    return maximal


class Tags:
    def __init__(self, focus, quick, thorough, real=False):
        self.real = real
        self.name = ("TAGSREAL/" if real else "TAGS/") + focus
        self._quick, self._thorough = quick, thorough

    def total(self, tier):
        return self._quick if tier == "quick" else self._thorough

    def deadline(self, tier):
        return 170 if tier == "quick" else 1500

    def gen(self, seed, index, tier):
        rng = runner.rng_for(seed, self.name, index)
        while True:
            pat = gp.gen_pattern(rng)
            tree = rp.tokenize(pat["pattern"])
            if rp.parts_of(tree) and not any(ch in pat["pattern"] for ch in "+"):
                break
        epoch = gp.gen_epoch(rng, True)
        state = gp.gen_state(rng, tree, epoch)
        if state.get("week_w") == 53 or state.get("week_u") == 53:
            # week 53 of WW/UU is the known finding F8 (C02/C05); this campaign steers around it
            epoch = epoch - dt.timedelta(days=21)
            state = gp.gen_state(rng, tree, epoch)
        if "doy" in state:
            state["doy"] = min(state["doy"], 365)
        nbranches = rng.choice([1, 1, 2, 3, 4])
        branches = ["main"] + ["feature%d" % i for i in range(1, nbranches)]
        tags = gen_tagset(rng, tree, state, branches)
        # sometimes put the config below / equal to / above the tags on purpose
        valid = [t["name"] for t in tags if t["kind"] in ("valid", "respelled") and rp.accepts(tree, t["name"])]
        r = rng.random()
        cfg_text = rp.render(tree, state)
        if valid and r < 0.25:
            cfg_text = rng.choice(valid)
            state = rp.recognise(tree, cfg_text)[0]
        scope = rng.choice(["default", "default", "global", "branch", None])
        # a branch named exactly like one of the tags (release branch "1.5.0" and tag "1.5.0"): legal, git then calls the
        # tag "tags/1.5.0" wherever it prints shortest unambiguous names
        twin = None
        if tags and rng.random() < 0.25:
            twin = rng.choice(valid or [t["name"] for t in tags])
        # a floating tag that somebody moved on the remote (`git tag -f latest && git push -f`): a plain fetch leaves the
        # local one alone
        moved = rng.random() < 0.25
        if moved and not any(t["name"] == "floating" for t in tags):
            tags.append({"name": "floating", "kind": "junk", "branch": "main", "depth": 2})
        # tags that so far exist on the remote only (pushed by CI or a colleague, onto commits this clone has): every run
        # fetches first, so they count
        if (not self.real and rng.random() < 0.3) or (self.real and moved and rng.random() < 0.6):
            for t in tags:
                if t["name"] != "floating" and rng.random() < 0.4:
                    t["remote_only"] = True
        ops = []
        for _ in range(rng.randint(1, 4)):
            if rng.random() < 0.4:
                ops.append({"op": "show", "ignore": rng.random() < 0.15, "no_fetch": rng.random() < 0.2,
                            "fault": rng.choice([None, None, None, None, "fetch", "ls_tags"])})
                if any(t.get("remote_only") for t in tags) and ops[-1]["fault"] == "fetch":
                    ops[-1]["fault"] = None
            else:
                ops.append({"op": "update", "flags": gp.gen_flags(rng, tree), "delta": gp.gen_clock_delta(rng),
                            "ignore": rng.random() < 0.25, "scope_flag": rng.choice([None, None, "default", "global", "branch"]),
                            "no_fetch": rng.random() < 0.2,
                            "dry": rng.random() < 0.3, "fault": rng.choice([None, None, None, None, None, "fetch", "ls_tags"])})
                if any(t.get("remote_only") for t in tags) and ops[-1]["fault"] == "fetch":
                    ops[-1]["fault"] = None
        return {"pattern": pat["pattern"], "epoch": epoch.isoformat(), "state": state, "cfg_text": cfg_text,
                "branches": branches, "head": rng.choice(branches), "tags": tags, "scope": scope,
                "pers": "hg" if (not self.real and rng.random() < 0.2) else "git",
                "commit": rng.random() < 0.5, "ops": ops, "twin_branch": twin, "moved_remote_tag": moved,
                # the checked-out branch has no upstream (new local branch, detached HEAD of a CI checkout): the remote is
                # then only known through remote.origin.url
                "no_upstream": rng.random() < 0.3,
                # HEAD detached at the tip of the chosen branch (what CI systems check out)
                "detached": rng.random() < 0.2,
                # another branch was merged into the checked-out one: its tags are reachable through the second parent
                "merge": rng.choice(branches) if (len(branches) > 1 and rng.random() < 0.3) else None,
                # the repository's data lives outside the project directory (`git init --separate-git-dir`, as in a linked
                # worktree or a submodule): `.git` is a file that points there
                "gitfile": self.real and rng.random() < 0.3}

    # ---- world building ---------------------------------------------------------------------------
    def build_fake(self, case, d):
        pers = case.get("pers", "git")
        repo = fakevcs.FakeRepo(pers, remote=True, tracking=not case.get("no_upstream"))
        os.mkdir(os.path.join(d, ".git" if pers == "git" else ".hg"))
        main = repo.head
        repo.baseline(d)
        base = repo.head_commit()
        tips = {"main": [base]}
        for _ in range(2):
            tips["main"].append(repo.new_commit("main work", []))
        for b in case["branches"][1:]:
            repo.switch(b, create_from=main)
            repo.branches[b] = tips["main"][1]
            tips[b] = [tips["main"][1]]
            for _ in range(3):
                tips[b].append(repo.new_commit("work on " + b, []))
        repo.switch(main)
        repo.commit_log = []
        for t in case["tags"]:
            chain = tips[t["branch"]]
            if t.get("remote_only"):
                repo.pending_remote_tags.append((t["name"], chain[max(0, len(chain) - 1 - t["depth"])]))
            else:
                repo.tags[t["name"]] = chain[max(0, len(chain) - 1 - t["depth"])]
        if case.get("twin_branch") and pers == "git" and case["twin_branch"] in repo.tags:
            repo.branches[case["twin_branch"]] = base
        if case.get("moved_remote_tag"):
            repo.moved_remote_tags = ["floating"]
        repo.switch(main if case["head"] == "main" else case["head"])
        if case.get("merge") and case["merge"] != case["head"]:
            other = main if case["merge"] == "main" else case["merge"]
            cid = repo.new_commit("merge " + case["merge"], [])
            repo.parents[cid].append(repo.branches[other])
            repo.commit_log = []
        if case.get("detached") and pers == "git":
            repo.detached = True
        return repo

    def build_real(self, case, d, clock):
        rg = realgit.RealGit(d, clock, remote=bool(case.get("moved_remote_tag")), gitfile=bool(case.get("gitfile")))
        rg.init()
        rg.commit_all("main work 1")
        fork = rg.head()
        rg.commit_all("main work 2")
        chains = {"main": [rg.git("rev-parse", "HEAD~2").strip(), fork, rg.head()]}
        for b in case["branches"][1:]:
            rg.git("checkout", "-q", "-b", b, fork)
            chain = [fork]
            for i in range(3):
                rg.commit_all("work on %s %d" % (b, i))
                chain.append(rg.head())
            chains[b] = chain
        for t in case["tags"]:
            chain = chains[t["branch"]]
            rg.git("tag", t["name"], chain[max(0, len(chain) - 1 - t["depth"])], check=False)
        if case.get("twin_branch") and case["twin_branch"] in rg.tags():
            rg.git("branch", case["twin_branch"], chains["main"][0], check=False)
        if case.get("moved_remote_tag"):
            # everything is on the remote; there, the floating tag is then moved to another commit
            rg.git("push", "-q", "origin", "--all")
            rg.git("push", "-q", "origin", "--tags")
            rg.git("tag", "-f", "floating", chains["main"][1], cwd=rg.remote_path)
        rg.git("checkout", "-q", case["head"])
        if case.get("merge") and case["merge"] != case["head"]:
            rg.git("merge", "-q", "--no-ff", "-m", "merge " + case["merge"], case["merge"])
        if case.get("detached"):
            rg.git("checkout", "-q", "--detach")
        rg.all_tags = set(rg.tags())
        rg.reachable_tags = set(rg.tags_merged())
        if case.get("moved_remote_tag"):
            # tags that a colleague pushed and this clone has not fetched yet
            for t in case["tags"]:
                if t.get("remote_only") and t["name"] in rg.all_tags:
                    rg.git("tag", "-d", t["name"])
        return rg

    def run(self, case, ctx):
        pattern = case["pattern"]
        tree = rp.tokenize(pattern)
        clock = dt.date.fromisoformat(case["epoch"])
        cfg_text = case["cfg_text"]
        state = dict(case["state"])
        d = invoker.new_dir("g")
        scope_line = 'tag_scope = "%s"\n' % case["scope"] if case["scope"] else ""
        cfg = ('[bumpver]\ncurrent_version = "%s"\nversion_pattern = "%s"\n%scommit = %s\ntag = %s\npush = false\n\n'
               '[bumpver.file_patterns]\n"bumpver.toml" = [\'current_version = "{version}"\']\n"a.txt" = ["ver {version} end"]\n'
               % (cfg_text, pattern, scope_line, "true" if case["commit"] else "false", "true" if case["commit"] else "false"))
        invoker.write_tree(d, {"bumpver.toml": cfg.encode(), "a.txt": ("ver %s end\n" % cfg_text).encode()})
        if self.real:
            rg = self.build_real(case, d, clock)
            repo = None
            existing = set(rg.all_tags)
            reachable = set(rg.reachable_tags)
            # model validation: FakeRepo must answer like git does
            d2 = invoker.new_dir("gf")
            invoker.write_tree(d2, {"x": b""})
            fake = self.build_fake(case, d2)
            f_pending = dict((n, c) for n, c in fake.pending_remote_tags)
            f_all = set(fake.tags) | set(f_pending)
            anc = fake.ancestors(fake.head_commit())
            f_reach = set(t for t in fake.tags if fake.tags[t] in anc) | set(n for n, c in f_pending.items() if c in anc)
            if existing != f_all or reachable != f_reach:
                raise invoker.HarnessError("FakeRepo disagrees with real git: all %s vs %s, merged %s vs %s" % (
                    sorted(f_all), sorted(existing), sorted(f_reach), sorted(reachable)))
            ctx.probe("fakerepo_validated_against_git")
        else:
            rg = None
            repo = self.build_fake(case, d)
            arriving = dict((n, c) for n, c in repo.pending_remote_tags)
            existing = set(repo.tags) | set(arriving)
            anc = repo.ancestors(repo.head_commit())
            reachable = set(t for t in repo.tags if repo.tags[t] in anc) | set(n for n, c in arriving.items() if c in anc)
            if arriving:
                ctx.probe("tags_that_arrive_with_the_fetch")
        tags = [t for t in case["tags"] if t["name"] in existing]
        ctx.sample = {"campaign": self.name, "pattern": pattern, "config_version": cfg_text, "scope": case["scope"],
                      "head": case["head"], "tags": [(t["name"], t["branch"], t["kind"]) for t in tags][:8], "ops": case["ops"][:3]}
        for k in set(t["kind"] for t in tags):
            ctx.probe("tagkind_" + k)
        if any(t["branch"] != case["head"] for t in tags):
            ctx.probe("tag_on_other_branch")
        if case.get("twin_branch") in existing:
            ctx.probe("branch_named_like_a_tag")
        if case.get("moved_remote_tag"):
            ctx.probe("tag_moved_on_the_remote")
        if case.get("no_upstream"):
            ctx.probe("branch_without_upstream")
        if case.get("gitfile"):
            ctx.probe("git_dir_outside_the_project")
        if case.get("detached"):
            ctx.probe("detached_head")
        if case.get("merge") and case["merge"] != case["head"]:
            ctx.probe("other_branch_merged_in")
        ctx.probe("personality_" + case.get("pers", "git"))
        two_digit = gp.has_two_digit_year(tree)
        for op in case["ops"]:
            scope = case["scope"] or "default"
            if op["op"] == "show":
                argv = ["show"] + (["--ignore-vcs-tag"] if op.get("ignore") else []) + (["--no-fetch"] if op.get("no_fetch") else [])
            else:
                clock = tc.step_clock(ctx, clock, op.get("delta", 0), two_digit)
                argv = ["update"] + gp.flags_to_argv(op.get("flags", {}))
                if op.get("ignore"):
                    argv.append("--ignore-vcs-tag")
                if op.get("scope_flag"):
                    argv += ["--tag-scope", op["scope_flag"]]
                    scope = op["scope_flag"]
                if op.get("dry"):
                    argv.append("--dry")
                if op.get("no_fetch"):
                    argv.append("--no-fetch")
            if op.get("no_fetch"):
                ctx.probe("no_fetch_with_tags_only_on_the_remote" if any(t.get("remote_only") for t in case["tags"]) else "no_fetch")
            if rg is not None:
                rg.set_date(clock)
                shim = fakevcs.VcsShim(None, forward_env=rg.env)
                pre_tags = set(rg.tags())
                pre_local = set(pre_tags)
                pre_reach = set(rg.tags_merged())
                if not op.get("ignore") and not op.get("no_fetch"):
                    pre_tags |= rg.all_tags       # (the run fetches first)
            else:
                fault = None
                if op.get("fault"):
                    # the remote is unreachable / the tag listing fails: a failing git command (CalledProcessError)
                    fault = fakevcs.Fault("fail_role", role=op["fault"] if op["fault"] == "fetch" else (
                        "ls_tags_branch" if scope == "branch" and not op.get("ignore") else "ls_tags"), rc=128)
                shim = fakevcs.VcsShim(repo, fault)
                pre_tags = set(repo.tags)
                pre_local = set(pre_tags)
                anc_now = repo.ancestors(repo.head_commit())
                pre_reach = set(t for t in repo.tags if repo.tags[t] in anc_now)
                if not op.get("ignore") and not op.get("no_fetch"):
                    # the run fetches before it looks at tags; with --ignore-vcs-tag it need not, and a tag that only the
                    # remote has is then not "an existing tag" of this repository yet
                    pre_tags |= set(n for n, _c in repo.pending_remote_tags)
            res = invoker.invoke(d, argv, clock, shim, fakevcs.HookShim({}))
            ctx.invocations += 1
            if op["op"] == "show":
                got = res.out_value("Current Version: ")
            else:
                got = res.log_value("Old Version: ")
            new = res.log_value("New Version: ") if (op["op"] == "update" and res.exit_code == 0) else None
            ctx.event(argv, res.exit_code, got, new)
            cur_tags = [t for t in case["tags"] if t["name"] in pre_tags] + \
                [{"name": n, "kind": "valid", "branch": case["head"]} for n in pre_tags if n not in existing]
            # reachability as it is now: earlier updates of this run created tags at HEAD (with --no-fetch possibly one whose name
            # a tag on the remote also has)
            fetching = not op.get("ignore") and not op.get("no_fetch")
            cur_reach = set(pre_reach)
            if fetching:
                cur_reach |= set(n for n in reachable if n not in pre_local)
            cur_reach |= (pre_tags - existing)
            want_a = current_reference(tree, cfg_text, cur_tags, cur_reach, scope, op.get("ignore"), True)
            want_b = current_reference(tree, cfg_text, cur_tags, cur_reach, scope, op.get("ignore"), False)
            want = want_a | want_b
            kinds = tuple(sorted(set(t["kind"] for t in cur_tags)))
            rel = "none"
            valid_now = [t["name"] for t in cur_tags if rp.accepts(tree, t["name"]) and t["kind"] != "impossible"]
            if valid_now:
                best = max(valid_now, key=lambda n: pep440.key(n))
                c = pep440.cmp(cfg_text, best)
                rel = "above" if c > 0 else ("equal" if c == 0 else "below")
            facts = {"pattern": pattern, "scope": scope, "ignore": bool(op.get("ignore")), "op": op["op"],
                     "pers": case.get("pers", "git"),
                     "impossible_tag": "impossible" in kinds, "config_vs_tags": rel}
            abstract = (scope, bool(op.get("ignore")), op["op"], kinds, rel, case["head"] == "main", len(case["branches"]))
            ctx.state(abstract)
            ctx.transition(abstract + (res.exit_code,))
            injected = rg is None and op.get("fault") and fault is not None and fault.fired
            if injected:
                ctx.fault("vcs_fail_" + op["fault"])
                if res.exit_code != 0:
                    # a failed fetch / tag listing may abort the run - but then nothing may have been changed
                    if res.changed:
                        ctx.violation("C09", "failed_listing_changed_files", facts, "%s failed (injected) and files changed" % op["fault"])
                    continue
            if res.exc is not None:
                # control run: the same invocation in a tag-free project whose config holds the start version the scope
                # rule prescribes; if that crashes the same way, the tags are not what broke the run
                related = True
                for start in sorted(want):
                    d3 = invoker.new_dir("gc")
                    invoker.write_tree(d3, {"bumpver.toml": cfg.replace('"%s"' % case["cfg_text"], '"%s"' % start, 1).encode(),
                                            "a.txt": ("ver %s end\n" % start).encode()})
                    cres = invoker.invoke(d3, [a for a in argv if a != "--ignore-vcs-tag"], clock, None, fakevcs.HookShim({}))
                    ctx.invocations += 1
                    if cres.exc is not None and cres.exc.split(":")[0] == res.exc.split(":")[0]:
                        related = False
                if not related:
                    ctx.count("crash_not_tag_related")
                    continue
                ctx.violation("C09", "tag_broke_run", dict(facts, exc=res.exc.split(":")[0]),
                              "%s crashed with %s; tags %s" % (argv, res.exc, [t["name"] for t in cur_tags][:10]))
                continue
            if got is not None:
                ctx.nontriv(abstract)
                if got not in want:
                    ctx.violation("C09", "wrong_current_version", facts,
                                  "%s starts from %r; by the scope rule (%s%s) it is one of %s (config %r, tags %s, reachable %s)" % (
                                      argv, got, scope, ", ignoring tags" if op.get("ignore") else "", sorted(want), cfg_text,
                                      sorted(t["name"] for t in cur_tags)[:12], sorted(cur_reach)[:12]))
            elif op["op"] == "show":
                ctx.violation("C09", "show_failed", facts, "`show` exit %s without a current version (%s)" % (
                    res.exit_code, [m for _l, _n, m in res.logs][-2:]))
            if new is not None:
                # C01 (update leg with VCS tags): valid for the pattern and strictly greater than the version it started from
                if not rp.accepts(tree, new):
                    ctx.violation("C01", "announced_not_accepted", dict(facts, old=got, new=new),
                                  "announced %r is not accepted in full by %r" % (new, pattern))
                elif want and not op.get("ignore") and all(pep440.cmp(new, w_) <= 0 for w_ in want):
                    ctx.violation("C01", "not_greater_than_scope_version", dict(facts, new=new),
                                  "announced %r is not greater than the version the scope rule says this run starts from (%s)" % (
                                      new, sorted(want)))
                elif got is not None and pep440.cmp(new, got) <= 0:
                    ctx.violation("C01", "not_strictly_greater", dict(facts, old=got, new=new),
                                  "announced %r is not strictly greater than the start version %r (from %s)" % (
                                      new, got, "a tag" if got in pre_tags else "the config"))
                if new in pre_tags:
                    ctx.violation("C09", "new_version_equals_existing_tag", facts,
                                  "%s announced %r which already exists as a tag (tags %s)" % (argv, new, sorted(pre_tags)[:12]))
                ctx.probe("update_ok")
                if not op.get("dry"):
                    st = rp.recognise(tree, new)
                    if st:
                        cfg_text, state = new, st[0]
                    if case["commit"] and rg is None:
                        pass
            if res.exit_code != 0 and res.changed:
                ctx.violation("C01", "failed_update_changed_files", facts, "update exited %s but files changed" % res.exit_code)
