"""ARGV (C12): adversarial commit/tag messages and file names crossing the subprocess seam.
Control-run differential: the same world is run with the adversarial value replaced by a plain word."""
import os
import re
import datetime as dt

import runner
from sim import invoker, fakevcs, realgit
from ref import configsyn

TODAY = dt.date(2023, 5, 6)
PLACEHOLDERS = ["{new_version}", "{old_version}", "{new_version_pep440}", "{old_version_pep440}"]
SPECIALS = ["'", '"', "\\", " ", "  ", "-", "--force", "$HOME", "`id`", "$(id)", ";", "&&", "|", "#", "%s", "*", "~",
            "é", "中", "😀", "\t", "!", "<", ">", "(", ")", "=", ",", "'; rm -rf /; '", "''", '""', "\\'", "-m", "--amend"]
WORDS = ["bump", "version", "release", "to", "from", "chore:", "[skip ci]", "v", "final"]
OLD_V, NEW_V = "v1.2.3-beta", "v1.2.4-beta"
OLD_P, NEW_P = "1.2.3b0", "1.2.4b0"
KW = {"new_version": NEW_V, "old_version": OLD_V, "NEW_VERSION": NEW_V, "OLD_VERSION": OLD_V,
      "new_version_pep440": NEW_P, "old_version_pep440": OLD_P}


def gen_message(rng, source, real=False, allow_newline=True):
    n = rng.randint(1, 7)
    if rng.random() < 0.06:
        n = rng.randint(20, 40)        # release notes in the message: many words, many shorthands
    parts = []
    for _ in range(n):
        r = rng.random()
        if r < 0.3:
            parts.append(rng.choice(WORDS))
        elif r < 0.5:
            parts.append(rng.choice(PLACEHOLDERS))
        elif r < 0.6 or (n >= 20 and r < 0.8):
            # the OLD/NEW shorthand is documented for the command line only; in a config template these are plain words
            parts.append(rng.choice(["OLD", "NEW", "NEWS", "OLDER"] if n < 20 else ["OLD", "NEW", "OLD", "NEW", "NEWS"]))
        elif r < 0.65 and allow_newline:
            parts.append("\n")
        else:
            parts.append(rng.choice(SPECIALS))
    msg = (" " if rng.random() < 0.7 else "").join(parts)
    for _ in range(8):
        before = msg
        if source == "config":
            msg = msg.strip("'\" ")    # the loader strips these at both ends by design of the INI syntax (DESIGN 6.12)
        if real:
            # keep it invariant under git's own message cleanup (trailing blanks, empty lines, '#' comment lines)
            lines = [ln.strip() if source == "config" else ln.rstrip() for ln in msg.split("\n")]
            lines = [ln for ln in lines if ln.strip() and not ln.lstrip().startswith("#")]
            msg = "\n".join(lines).strip()
        if msg == before:
            break
    if not msg or msg.strip("'\" ") == "" or (real and msg.lstrip().startswith("#")):
        msg = "bump {new_version}"
    return msg


def expected_message(template, source):
    """The documented substitution, independent of bumpver: OLD/NEW shorthand (CLI only), then the placeholders."""
    t = template
    if source == "cli":
        t = re.sub(r"\b(OLD|NEW)\b", lambda m: "{%s_VERSION}" % m.group(1), t)
    out = []
    pos = 0
    for m in re.finditer(r"\{([A-Za-z_0-9]+)\}", t):
        out.append(t[pos:m.start()])
        out.append(KW.get(m.group(1), m.group(0)))
        pos = m.end()
    out.append(t[pos:])
    return "".join(out)


# (double quotes and backslashes in TOML *keys* are mangled by the third-party toml 0.10 parser before bumpver sees them)
ODD_NAMES = ["with space.txt", "x'y.txt", "-dash.txt", "a b/c d.txt", "uni é.txt", "$dollar.txt", "semi;colon.txt",
             "--update", "it's 'quoted'.txt", "`tick`.txt", "amp&ersand.txt", "back\\slash.txt", "dq\"uote.txt", "ver\\sion\\x.txt", "\"release\" notes.txt", "--force", "-A",
             "a*.txt", "what?.txt"]


class Argv:
    def __init__(self, focus, quick, thorough, real=False):
        self.real = real
        self.name = ("ARGVREAL/" if real else "ARGV/") + focus
        self._quick, self._thorough = quick, thorough

    def total(self, tier):
        return self._quick if tier == "quick" else self._thorough

    def deadline(self, tier):
        return 170 if tier == "quick" else 1500

    def gen(self, seed, index, tier):
        rng = runner.rng_for(seed, self.name, index)
        syntax = rng.choice(["bumpver.toml", "bumpver.toml", "setup.cfg"])
        ini = syntax == "setup.cfg"
        msg_source = rng.choice(["config", "cli"])
        tag_source = rng.choice(["config", "cli"])
        commit_msg = gen_message(rng, msg_source, self.real, allow_newline=not (ini and msg_source == "config"))
        tag_msg = gen_message(rng, tag_source, self.real, allow_newline=not (ini and tag_source == "config")) if rng.random() < 0.8 else ""
        # neither the config nor the command line says anything: the documented defaults apply
        if rng.random() < 0.15:
            msg_source, commit_msg = "default", "bump version to {new_version}"
        if rng.random() < 0.15:
            tag_source, tag_msg = "default", "{new_version}"
        names = ["a.txt"]
        if not ini:
            pool = list(ODD_NAMES)
            names += rng.sample(pool, rng.randint(0, 3))
        return {"syntax": syntax, "msg_source": msg_source, "tag_source": tag_source, "commit_msg": commit_msg,
                "tag_msg": tag_msg, "names": names, "pers": "git" if (self.real or rng.random() < 0.6) else "hg",
                "push": rng.random() < 0.5, "ops": [{"op": "update"}],
                # a migrated project that kept its old table: lower-priority tables are ignored as a whole
                "decoy_table": (not ini) and rng.random() < 0.3,
                # a config file written on Windows, with the message as a multi-line string
                "cfg_crlf": (not ini) and rng.random() < 0.25, "multiline": (not ini) and rng.random() < 0.5}

    def shrink(self, case):
        """Fewer odd names, plainer messages."""
        for i in range(1, len(case["names"])):
            yield dict(case, names=case["names"][:i] + case["names"][i + 1:])
        for key, plain in (("commit_msg", "bump {new_version}"), ("tag_msg", "")):
            if case[key] != plain:
                yield dict(case, **{key: plain})
        if case.get("push"):
            yield dict(case, push=False)

    def build(self, case, commit_msg, tag_msg, names):
        d = invoker.new_dir("a")
        cfg = {"current_version": OLD_V, "version_pattern": "vMAJOR.MINOR.PATCH[-TAG]", "commit": True, "tag": True,
               "push": bool(case["push"]),
               "file_patterns": [[case["syntax"], ['current_version = "{version}"']]] + [[n, ["ver {version}"]] for n in names]}
        argv = ["update", "--patch", "--no-fetch"]
        if case["msg_source"] == "config":
            cfg["commit_message"] = commit_msg
        elif case["msg_source"] == "cli":
            argv += ["--commit-message", commit_msg]
        if case["tag_source"] == "config":
            cfg["tag_message"] = tag_msg
        elif case["tag_source"] == "cli":
            argv += ["--tag-message", tag_msg]
        lines, _i, _p, _s = configsyn.render_config(cfg, case["syntax"], {"quote": '"', "toml_literal": False,
                                                                           "toml_multiline": bool(case.get("multiline"))})
        if case.get("decoy_table") and case["syntax"].endswith(".toml"):
            lines += ["", "[pycalver]", 'current_version = "v0.0.1"', 'version_pattern = "vMAJOR.MINOR.PATCH[-TAG]"',
                      'commit_message = "decoy commit {new_version}"', 'tag_message = "decoy tag {new_version}"', "",
                      "[pycalver.file_patterns]", '"decoy.txt" = ["{version}"]', ""]
        text = "\n".join(lines) + "\n"
        if case.get("cfg_crlf") and case["syntax"].endswith(".toml"):
            text = text.replace("\n", "\r\n")
        files = {case["syntax"]: text.encode("utf-8")}
        for n in names:
            files[n] = ("text\nver %s\n" % OLD_V).encode("utf-8")
        invoker.write_tree(d, files)
        return d, argv

    def run_once(self, case, commit_msg, tag_msg, names, ctx):
        d, argv = self.build(case, commit_msg, tag_msg, names)
        if self.real:
            rg = realgit.RealGit(d, TODAY, remote=case["push"])
            rg.init()
            shim = fakevcs.VcsShim(None, forward_env=rg.env)
            repo = rg
        else:
            os.mkdir(os.path.join(d, ".git" if case["pers"] == "git" else ".hg"))
            repo = fakevcs.FakeRepo(case["pers"], remote=True)
            repo.baseline(d)
            shim = fakevcs.VcsShim(repo)
        res = invoker.invoke(d, argv, TODAY, shim, fakevcs.HookShim({}))
        ctx.invocations += 1
        return res, repo, d

    def run(self, case, ctx):
        facts = {"msg_source": case["msg_source"], "tag_source": case["tag_source"], "pers": case["pers"],
                 "syntax": case["syntax"]}
        exp_commit = expected_message(case["commit_msg"], case["msg_source"])
        exp_tag = expected_message(case["tag_msg"], case["tag_source"]) if case["tag_msg"] else ""
        ctrl_names = ["a.txt"] + ["plain%d.txt" % i for i in range(len(case["names"]) - 1)]
        ctrl, _r, _d = self.run_once(case, "M0" if case["msg_source"] != "default" else case["commit_msg"],
                                     ("T0" if case["tag_msg"] else "") if case["tag_source"] != "default" else case["tag_msg"], ctrl_names, ctx)
        res, repo, d = self.run_once(case, case["commit_msg"], case["tag_msg"], case["names"], ctx)
        ctx.event([e["argv"][:2] + ["..."] for e in res.events if e["kind"] == "vcs" and e["role"] in fakevcs.MUTATING],
                  res.exit_code, ctrl.exit_code)
        ctx.sample = {"campaign": self.name, "commit_message_template": case["commit_msg"], "tag_message_template": case["tag_msg"],
                      "names": case["names"], "source": [case["msg_source"], case["tag_source"]], "personality": case["pers"]}
        specials = tuple(sorted(set(s for s in SPECIALS if s.strip() and (s in case["commit_msg"] or s in case["tag_msg"]))))[:6]
        ctx.nontriv((specials, case["msg_source"], case["tag_source"], case["pers"], tuple(sorted(case["names"]))))
        ctx.state((case["pers"], case["syntax"], case["msg_source"], case["tag_source"]))
        if any(w in case["commit_msg"].split() or w in case["tag_msg"].split() for w in ("OLD", "NEW")):
            ctx.probe("old_new_word_in_%s_template" % ("config" if "config" in (case["msg_source"], case["tag_source"]) else "cli"))
        for s in ("'", '"', "\\", "\n", "$HOME", "`id`"):
            if s in case["commit_msg"] or s in case["tag_msg"]:
                ctx.probe("message_with_" + {"'": "single_quote", '"': "double_quote", "\\": "backslash", "\n": "newline",
                                             "$HOME": "dollar", "`id`": "backtick"}[s])
        if len(case["names"]) > 1:
            ctx.probe("odd_file_name")
        if case.get("cfg_crlf"):
            ctx.probe("config_file_with_crlf")
            if case.get("multiline") and "config" in (case["msg_source"], case["tag_source"]) and \
                    any("\n" in m for m in (case["commit_msg"], case["tag_msg"])):
                ctx.probe("crlf_config_multiline_message")
        if ctrl.exit_code != 0:
            # the plain control world is ordinary use; if even that fails there is nothing to compare against
            ctx.count("control_run_failed")
            ctx.violation("C10", "plain_update_failed", facts, "update with plain ASCII messages and names failed: exit %s %s %s" % (
                ctrl.exit_code, ctrl.exc, [m for _l, _n, m in ctrl.logs][-3:]))
            return

        def mut(r):
            return [e for e in r.events if e["kind"] == "vcs" and e["role"] in fakevcs.MUTATING]

        detail = "templates commit=%r tag=%r names=%s" % (case["commit_msg"], case["tag_msg"], case["names"])
        if res.exit_code != 0:
            ctx.violation("C12", "value_broke_command", dict(facts, exc=(res.exc or "").split(":")[0]),
                          "the plain control run succeeds, but with %s the update exits %s (%s); files %s" % (
                              detail, res.exit_code, res.exc or [m for _l, _n, m in res.logs][-2:],
                              "already rewritten" if res.changed else "unchanged"))
            return
        a, b = mut(res), mut(ctrl)
        if [e["role"] for e in a] != [e["role"] for e in b]:
            ctx.violation("C12", "commands_differ_from_control", facts, "command sequence %s vs control %s; %s" % (
                [e["role"] for e in a], [e["role"] for e in b], detail))
            return
        name_map = dict(zip(ctrl_names, ["a.txt"] + case["names"][1:]))
        cfgname = case["syntax"]
        staged = []
        ctrl_staged = []
        for ea, eb in zip(a, b):
            role = ea["role"]
            if role == "add":
                staged.append(ea["argv"])
                ctrl_staged.append(eb["argv"])
                continue
            want = list(eb["argv"])
            if role == "commit":
                if case["pers"] == "hg":
                    # message travels through a log file whose name differs per run
                    got_msg, want_msg = ea["info"].get("message"), exp_commit
                    if got_msg != want_msg:
                        ctx.violation("C12", "commit_message_altered", facts, "hg log file holds %r, expected %r; %s" % (
                            got_msg, want_msg, detail))
                    if len(ea["argv"]) != len(eb["argv"]):
                        ctx.violation("C12", "argv_structure_changed", dict(facts, role=role), "argv %r vs control %r" % (ea["argv"], eb["argv"]))
                    continue
                want = [exp_commit if x == "M0" else x for x in want]
            elif role == "tag":
                want = [exp_tag if x == "T0" else x for x in want]
            if role in ("commit", "tag") and case["pers"] == "git":
                # independent of the control run: the message is the reference's substitution of the effective template
                got_m, want_m = ea["info"].get("message"), (exp_commit if role == "commit" else (exp_tag or None))
                if got_m != want_m:
                    ctx.violation("C12", "commit_message_altered" if role == "commit" else "tag_argv_altered",
                                  dict(facts, role=role, effective=True),
                                  "%s message %r, the effective template (%s) gives %r; %s" % (
                                      role, got_m, case["msg_source"] if role == "commit" else case["tag_source"], want_m, detail))
                    continue
            if ea["argv"] != want:
                kind = {"commit": "commit_message_altered", "tag": "tag_argv_altered"}.get(role, "argv_structure_changed")
                ctx.violation("C12", kind, dict(facts, role=role), "%s argv %r, expected %r; %s" % (role, ea["argv"], want, detail))
            if role == "tag" and ea["info"].get("name") != res.log_value("New Version: "):
                ctx.violation("C12", "tag_name_not_version", facts, "tag name %r, announced %r" % (
                    ea["info"].get("name"), res.log_value("New Version: ")))
        # staged paths: same multiset as the control's, with plain names mapped to the odd ones
        want_adds = sorted([name_map.get(x, x) if i == len(argv) - 1 else x for i, x in enumerate(argv)] for argv in ctrl_staged)
        if sorted(staged) != want_adds:
            ctx.violation("C12", "staged_path_altered", facts, "add commands %r, expected %r" % (sorted(staged), want_adds))
        # ... and what the tool makes of those commands (its own option parsing, paths read from stdin): exactly the configured paths
        adds = [e for e in a if e["role"] == "add"]
        resolved = sorted(p for e in adds for p in e["info"].get("paths", []))
        if any(e["info"].get("sweep") for e in adds) or resolved != sorted([cfgname] + case["names"]):
            ctx.violation("C12", "staged_path_altered", dict(facts, resolved=True), "the staging commands %r (stdin %r) name the paths %r%s, configured %r" % (
                [e["argv"] for e in adds], [e.get("stdin") for e in adds if e.get("stdin") is not None], resolved,
                " and one of them has no pathspec at all (stages every change)" if any(e["info"].get("sweep") for e in adds) else "",
                sorted([cfgname] + case["names"])))
        if self.real:
            rg = repo
            body = rg.message_of("HEAD")
            if body.rstrip("\n") != exp_commit:
                ctx.violation("C12", "commit_object_message", facts, "git stored %r, expected %r" % (body, exp_commit))
            tagname = res.log_value("New Version: ")
            if exp_tag:
                contents = rg.git("tag", "-l", "--format=%(contents)", tagname)
                if contents.rstrip("\n") != exp_tag:
                    ctx.violation("C12", "tag_object_message", facts, "git stored tag message %r, expected %r" % (contents, exp_tag))
            if tagname not in rg.tags():
                ctx.violation("C12", "tag_name_not_version", facts, "tag %r missing; tags %s" % (tagname, rg.tags()))
            files = rg.files_of("HEAD")
            if sorted(files) != sorted([cfgname] + case["names"]):
                ctx.violation("C12", "staged_path_altered", facts, "commit contains %s, configured %s" % (files, [cfgname] + case["names"]))
            ctx.probe("real_git_objects_checked")
