"""REALLIFE (C08): histories of update invocations against real git, interleaved with failing invocations,
--no-commit / --no-tag-commit / --no-push runs, branch switches and unrelated commits."""
import os
import datetime as dt

import runner
from sim import invoker, fakevcs, realgit, world as simworld
from ref import pattern as rp, pep440
from gen import patterns as gp, layouts
from campaigns import testcmd as tc


def greatest(tree, names):
    best = None
    for n in names:
        if not rp.accepts(tree, n):
            continue
        if best is None or pep440.cmp(n, best) > 0:
            best = n
    return best


class RealLife:
    def __init__(self, focus, quick, thorough):
        self.name = "REALLIFE/" + focus
        self._quick, self._thorough = quick, thorough

    def total(self, tier):
        return self._quick if tier == "quick" else self._thorough

    def deadline(self, tier):
        return 200 if tier == "quick" else 1700

    def gen(self, seed, index, tier):
        rng = runner.rng_for(seed, self.name, index)
        project = layouts.gen_project(rng, mode="plain", allow_mixed=True, vcs="none", allow_odd_paths=False, allow_symlinks=False,
                                      allow_glob=True, max_files=3, wide_glob=True)
        project["cfg"].update({"commit": True, "tag": True, "push": rng.random() < 0.6})
        project["vcs"] = None
        tree = rp.tokenize(project["version_pattern"])
        ops = []
        n = rng.randint(1, 12)
        if rng.random() < 0.5:
            # a maintenance branch created before any bump; switching to it later means "older checkout, newer tags elsewhere"
            ops.append({"op": "actor_create_branch", "name": "maint"})
        if "tag" in rp.fields_of(tree) and rng.random() < 0.3:
            # a release cycle (pre-releases, then the final release of the same number), after which work continues on an older
            # checkout: the tags then hold X-rc0, X-rc1 and X, and the greatest of them is X
            if not ops:
                ops.append({"op": "actor_create_branch", "name": "maint"})
            pre = rng.choice(["rc", "beta", "alpha", "dev"])
            ops.append({"op": "update", "flags": {"tag": pre}, "delta": 1, "vcs_flags": []})
            if "num" in rp.fields_of(tree):
                ops.append({"op": "update", "flags": {"tag_num": True}, "delta": 1, "vcs_flags": []})
            ops.append({"op": "update", "flags": {"tag": "final"}, "delta": 2, "vcs_flags": []})
            ops.append({"op": "actor_switch_branch", "name": "maint"})
            ops.append({"op": "update", "flags": rng.choice([{"tag_num": True}, {"tag": "final"}, {}, {"tag": pre}]), "delta": 1,
                        "vcs_flags": []})
            n = max(n, len(ops) + 1)
        while len(ops) < n:
            r = rng.random()
            if r < 0.62:
                op = {"op": "update", "flags": gp.gen_flags(rng, tree), "delta": abs(gp.gen_clock_delta(rng)),
                      "vcs_flags": rng.choice([[], [], [], [], ["--no-tag-commit"], ["--no-push"], ["--no-commit"],
                                               ["--no-tag-commit", "--no-push"]])}
                if rng.random() < 0.15 and "--no-commit" not in op["vcs_flags"]:
                    op["dirty_unrelated"] = True      # the developer has unstaged work in an unrelated tracked file
                elif rng.random() < 0.08:
                    # the remote cannot be reached for this one run (offline, host gone): the run may stop - or carry on from
                    # what the local repository knows; it must not carry on from less than that
                    op["remote_gone"] = True
                    if "--no-push" not in op["vcs_flags"] and "--no-commit" not in op["vcs_flags"]:
                        op["vcs_flags"] = list(op["vcs_flags"]) + ["--no-push"]
                ops.append(op)
                if "--no-commit" in op["vcs_flags"] and rng.random() < 0.8:
                    ops.append({"op": "actor_commit_all"})
            elif r < 0.74:
                ops.append({"op": "update", "fail": rng.choice(["nochange", "sv_lower", "sv_junk", "bad_flag", "contradiction"]),
                            "delta": 0})
            elif r < 0.86:
                ops.append({"op": "actor_unrelated_commit"})
            else:
                ops.append({"op": "actor_switch_branch", "name": rng.choice(["feature1", "maint", "maint", "main", "main", "hotfix"])})
        # the checkout's `.git` may be a file pointing elsewhere (linked worktree, submodule, --separate-git-dir)
        return {"project": project, "ops": ops, "gitfile": rng.random() < 0.25}

    def run(self, case, ctx):
        project = case["project"]
        w = simworld.World(project)
        w.materialise()
        invoker.write_tree(w.dir, {"unrelated_notes.txt": b"actor notes\n"})
        tree, pattern = w.vtree, w.vpattern
        clock = dt.date.fromisoformat(project["epoch"])
        rg = realgit.RealGit(w.dir, clock, remote=True, gitfile=bool(case.get("gitfile")))
        rg.init()
        if case.get("gitfile"):
            ctx.probe("dot_git_is_a_file")
        state = dict(project["state"])
        text = rp.render(tree, state)
        branch_ver = {"main": (state, text)}   # what the files of each branch show
        cur_branch = "main"
        two_digit = gp.has_two_digit_year(tree)
        configured = set(w.configured)
        layouts_probe = project["syntax"]
        ctx.sample = {"campaign": self.name, "pattern": pattern, "start": text, "syntax": layouts_probe,
                      "files": sorted(configured), "ops": [o["op"] + ("!" + o["fail"] if o.get("fail") else "") for o in case["ops"]]}
        successes = 0
        dirty_since_nocommit = False
        if any(f.get("wide_group") for f in project["files"]):
            ctx.probe("glob_with_6000_chars_of_paths")
        for step, op in enumerate(case["ops"]):
            rg.set_date(clock)
            kind = op["op"]
            if kind == "actor_unrelated_commit":
                with open(os.path.join(w.dir, "unrelated_notes.txt"), "ab") as fobj:
                    fobj.write(("note %d\n" % step).encode())
                rg.git("add", "--", "unrelated_notes.txt")
                rg.git("commit", "-q", "-m", "actor: unrelated work %d" % step, "--", "unrelated_notes.txt")
                ctx.event("actor_unrelated_commit")
                ctx.probe("actor_unrelated_commit")
                continue
            if kind == "actor_create_branch":
                rg.git("branch", op["name"])
                branch_ver[op["name"]] = branch_ver[cur_branch]
                ctx.event("create_branch", op["name"])
                continue
            if kind == "actor_commit_all":
                rg.commit_all("actor: commit everything %d" % step)
                dirty_since_nocommit = False
                ctx.event("actor_commit_all")
                continue
            if kind == "actor_switch_branch":
                if rg.status().strip():
                    rg.commit_all("actor: commit before switching %d" % step)
                    dirty_since_nocommit = False
                name = op["name"]
                existing = [b.strip("* ").strip() for b in rg.git("branch", "--list").splitlines()]
                if name in existing:
                    rg.git("checkout", "-q", name)
                else:
                    rg.git("checkout", "-q", "-b", name)
                    branch_ver[name] = branch_ver[cur_branch]
                cur_branch = name
                ctx.event("switch", name)
                ctx.probe("actor_switch_branch")
                continue
            # ---- update
            clock = tc.step_clock(ctx, clock, op.get("delta", 0), two_digit)
            rg.set_date(clock)
            st_branch, text_branch = branch_ver[cur_branch]
            all_tags = rg.tags()
            best_tag = greatest(tree, all_tags)
            if best_tag is not None and pep440.cmp(best_tag, text_branch) > 0:
                start_text = best_tag
                start_state = rp.recognise(tree, best_tag)[0]
                ctx.probe("start_from_tag_on_other_branch")
            else:
                start_text, start_state = text_branch, st_branch
            flags = dict(op.get("flags", {}))
            argv = ["update"] + gp.flags_to_argv(flags) + list(op.get("vcs_flags", []))
            fail = op.get("fail")
            if fail == "nochange" and "bid" in rp.fields_of(tree):
                fail = None   # BUILD always changes: this is an ordinary update
                flags = {"pin_date": True, "pin_increments": True}
                argv = ["update", "--pin-date", "--pin-increments"]
            if fail == "nochange":
                argv = ["update", "--pin-date", "--pin-increments"]
                flags = {"pin_date": True, "pin_increments": True}
            elif fail == "sv_lower":
                t = tc.derive_target("lower", tree, start_state, start_text)
                argv = ["update", "--set-version", t or "junk"]
            elif fail == "sv_junk":
                argv = ["update", "--set-version", "not-a-version"]
            elif fail == "bad_flag":
                argv = ["update", "--tag", "gamma"]
            elif fail == "contradiction":
                argv = ["update", "--patch", "--no-commit", "--tag-commit"]
            pending = None
            if op.get("dirty_unrelated") and fail is None and not rg.status().strip():
                with open(os.path.join(w.dir, "unrelated_notes.txt"), "ab") as fobj:
                    fobj.write(("work in progress %d\n" % step).encode())
                pending = " M unrelated_notes.txt"
                argv.append("--allow-dirty")
                ctx.probe("allow_dirty_with_unrelated_work")
            head0 = rg.head()
            tags0 = set(all_tags)
            status0 = rg.status()
            gone = bool(op.get("remote_gone")) and fail is None and rg.remote_path and os.path.isdir(rg.remote_path)
            if gone:
                os.rename(rg.remote_path, rg.remote_path + ".gone")
                ctx.fault("remote_unreachable")
            try:
                res = invoker.invoke(w.dir, argv, clock, fakevcs.VcsShim(None, forward_env=rg.env), realgit.PassthroughHooks())
            finally:
                if gone:
                    os.rename(rg.remote_path + ".gone", rg.remote_path)
            ctx.invocations += 1
            head1 = rg.head()
            tags1 = set(rg.tags())
            old_ann = res.log_value("Old Version: ")
            new = res.log_value("New Version: ") if res.exit_code == 0 else None
            ctx.event(argv, res.exit_code, old_ann, new, head1 != head0, sorted(tags1 - tags0))
            facts = tc.facts_for(tree, start_state, None, flags, pattern)
            facts.update({"vcs_flags": list(op.get("vcs_flags", [])), "fail_kind": fail})
            abstract = (tuple(sorted(set(rp.parts_of(tree)))), tuple(sorted(flags)), tuple(op.get("vcs_flags", [])), fail,
                        cur_branch != "main", project["syntax"])
            ctx.state((abstract[0], cur_branch != "main", len(tags0) > 0))
            ctx.transition(abstract + (res.exit_code,))
            detail = "argv %s on branch %s (start %r, tags %s) -> exit %s; %s" % (
                argv, cur_branch, start_text, sorted(tags0)[-4:], res.exit_code, res.exc or [m for _l, _n, m in res.logs][-2:])
            if res.exit_code != 0:
                ctx.probe("failing_invocation")
                if res.changed or head1 != head0 or tags1 != tags0:
                    ctx.violation("C08", "failed_update_left_traces", facts,
                                  "failed update changed %s: %s" % (
                                      "files" if res.changed else ("HEAD" if head1 != head0 else "tags"), detail))
                    break
                if pending:
                    rg.git("checkout", "--", "unrelated_notes.txt")
                if fail is None and not gone and not dirty_since_nocommit and (not status0.strip() or pending):
                    exp = tc.expectation(ctx, tree, start_state, start_text, flags, clock, False)
                    if exp[0] == "ok" and exp[2] is not None and rp.accepts(tree, exp[2]) and pep440.cmp(exp[2], start_text) > 0 \
                            and exp[2] not in tags0 and not facts.get("week53"):
                        ctx.violation("C08", "update_blocked", facts, "a legal bump to %r was refused: %s" % (exp[2], detail))
                        break
                continue
            if fail is not None and fail != "sv_lower":
                ctx.violation("C08", "bad_invocation_succeeded", facts, "an invocation that must fail succeeded: " + detail)
                break
            ctx.nontriv(abstract)
            successes += 1
            if old_ann != start_text and not (old_ann and pep440.cmp(old_ann, start_text) == 0):
                ctx.violation("C09", "wrong_current_version", facts, "started from %r, expected %r: %s" % (old_ann, start_text, detail))
            if pep440.cmp(new, start_text) <= 0:
                ctx.violation("C08", "not_greater_than_previous", facts, "%r is not greater than %r: %s" % (new, start_text, detail))
                break
            states = rp.recognise(tree, new)
            if not states:
                ctx.violation("C01", "announced_not_accepted", facts, "announced %r not accepted by %r" % (new, pattern))
                break
            new_state = states[0]
            # (i)+(ii) files
            if w.clock is not None:
                w.clock = clock
            nv = len(ctx.violations)
            ok = w.walk(ctx, {p: d for p, d in res.after.items() if p != "unrelated_notes.txt"}, new_state, new, st_branch,
                        text_branch, facts)
            if not ok:
                for v in ctx.violations[nv:]:
                    ctx.violation("C08", "files_disagree_after_update", dict(facts, inner=v["kind"]), v["detail"])
                break
            branch_ver[cur_branch] = (new_state, new)
            vflags = op.get("vcs_flags", [])
            committed = "--no-commit" not in vflags
            tagged = committed and "--no-tag-commit" not in vflags
            pushed = committed and project["cfg"].get("push") and "--no-push" not in vflags
            # (iv) commits and tags
            ncommits = int(rg.git("rev-list", "--count", "%s..HEAD" % head0).strip())
            if committed:
                if ncommits != 1:
                    ctx.violation("C08", "commit_count", facts, "%d new commits instead of one: %s" % (ncommits, detail))
                    break
                files = set(rg.files_of("HEAD"))
                if not files <= configured or w.syntax not in files:
                    ctx.violation("C08", "commit_content", facts, "bump commit contains %s, configured files are %s: %s" % (
                        sorted(files), sorted(configured), detail))
                left = rg.status().strip("\n")
                if pending:
                    if left != pending:
                        ctx.violation("C08", "pending_work_swept_or_lost", facts,
                                      "unstaged work in an unrelated file before the update, afterwards `git status` is %r (expected %r); commit holds %s" % (
                                          left, pending, sorted(files)))
                    rg.commit_all("actor: finish work %d" % step)
                elif left:
                    ctx.violation("C08", "tree_dirty_after_commit", facts, "working tree not clean after the bump commit: %r" % left)
            else:
                dirty_since_nocommit = True
                if pending:
                    pass
                if ncommits != 0 or tags1 != tags0:
                    ctx.violation("C08", "commit_without_commit_flag", facts, "--no-commit yet HEAD/tags moved: " + detail)
                    break
            if tagged:
                if tags1 - tags0 != {new}:
                    ctx.violation("C08", "tag_missing_or_wrong", facts, "new tags %s, announced %r: %s" % (
                        sorted(tags1 - tags0), new, detail))
                    break
                if rg.tag_commit(new) != head1:
                    ctx.violation("C08", "tag_not_on_bump_commit", facts, "tag %r points at %s, HEAD is %s" % (new, rg.tag_commit(new), head1))
                if greatest(tree, tags1) != new:
                    ctx.violation("C08", "newest_tag_is_not_version", facts, "newest tag is %r, announced %r" % (greatest(tree, tags1), new))
                ctx.probe("commit_and_tag")
            elif tags1 != tags0:
                ctx.violation("C08", "tag_without_tag_flag", facts, "tagging is off yet tags changed: " + detail)
                break
            if pushed:
                remote_head = rg.git("ls-remote", "origin", "refs/heads/" + cur_branch).split("\t")[0]
                if remote_head != head1:
                    ctx.violation("C08", "push_missing", facts, "origin/%s is %r, HEAD %s" % (cur_branch, remote_head, head1))
                ctx.probe("pushed")
            # (iii) show
            rg.set_date(clock)
            sres = invoker.invoke(w.dir, ["show", "--no-fetch"], clock, fakevcs.VcsShim(None, forward_env=rg.env), None)
            ctx.invocations += 1
            shown = sres.out_value("Current Version: ")
            if sres.exit_code != 0 or (shown != new and not (shown and pep440.cmp(shown, new) >= 0 and shown in tags1)):
                ctx.violation("C08", "show_disagrees", facts, "`show` prints %r (exit %s) after the update announced %r" % (
                    shown, sres.exit_code, new))
                break
        # (vi) bounded progress: once faults stop, one further update succeeds within one step
        if successes and not ctx.violations and not rg.status().strip():
            st_branch, text_branch = branch_ver[cur_branch]
            best_tag = greatest(tree, rg.tags())
            if best_tag is not None and pep440.cmp(best_tag, text_branch) > 0:
                start_text, start_state = best_tag, rp.recognise(tree, best_tag)[0]
            else:
                start_text, start_state = text_branch, st_branch
            clock2 = tc.step_clock(ctx, clock, 400, two_digit)
            names = set(rp.parts_of(tree))
            flags = {}
            for k, part in (("patch", "PATCH"), ("minor", "MINOR"), ("major", "MAJOR")):
                if part in names:
                    flags[k] = True
                    break
            exp = tc.expectation(ctx, tree, start_state, start_text, flags, clock2, False)
            if exp[0] == "ok" and exp[2] is not None and rp.accepts(tree, exp[2]) and pep440.cmp(exp[2], start_text) > 0 \
                    and not tc.facts_for(tree, start_state, exp[1], flags, pattern)["week53"]:
                rg.set_date(clock2)
                res = invoker.invoke(w.dir, ["update"] + gp.flags_to_argv(flags), clock2,
                                     fakevcs.VcsShim(None, forward_env=rg.env), realgit.PassthroughHooks())
                ctx.invocations += 1
                ctx.event("progress", res.exit_code)
                ctx.probe("progress_probe")
                if res.exit_code != 0:
                    ctx.violation("C08", "no_further_update_possible", {"pattern": pattern},
                                  "after %d successful updates a further update (%s, +400 days) fails: %s" % (
                                      successes, flags, res.exc or [m for _l, _n, m in res.logs][-3:]))


class BranchLife:
    """C08 under tag scope `branch`: a release on main, a maintenance branch cut at that release (named like an ordinary
    branch, or exactly like the release tag - `git checkout -b 1.2.4 1.2.4` is what many projects do), then updates on that
    branch.  After every update config, files, `show` and the newest tag reachable from HEAD agree, each version is greater
    than the one before on that branch, and exactly one commit and one tag are added."""

    def __init__(self, focus, quick, thorough):
        self.name = "BRANCHLIFE/" + focus
        self._quick, self._thorough = quick, thorough

    def total(self, tier):
        return self._quick if tier == "quick" else self._thorough

    def deadline(self, tier):
        return 170 if tier == "quick" else 1500

    def gen(self, seed, index, tier):
        rng = runner.rng_for(seed, self.name, index)
        return {"pattern": rng.choice(["MAJOR.MINOR.PATCH", "vMAJOR.MINOR.PATCH[-TAG]", "vYYYY.BUILD[-TAG]"]),
                "branch": rng.choice(["@tag", "@tag", "maint", "release/next", "@tag-x"]),
                "scope_from": rng.choice(["config", "flag"]), "main_updates": rng.randint(1, 3),
                "branch_updates": rng.randint(1, 3), "back_to_main": rng.random() < 0.5, "ops": [{"op": "branchlife"}]}

    def run(self, case, ctx):
        pattern = case["pattern"]
        tree = rp.tokenize(pattern)
        clock = dt.date(2024, 3, 5)
        st = rp.state_for_date(tree, clock, {"bid": "1001", "tag": "final", "major": 1, "minor": 2, "patch": 3})
        st = {f: st.get(f) for f in rp.fields_of(tree)}
        if "tag" in st and st["tag"] is None:
            st["tag"] = "final"
        text = rp.render(tree, st)
        d = invoker.new_dir("bl")
        scope_line = 'tag_scope = "branch"\n' if case["scope_from"] == "config" else ""
        cfg = ('[bumpver]\ncurrent_version = "%s"\nversion_pattern = "%s"\n%scommit = true\ntag = true\npush = false\n\n'
               '[bumpver.file_patterns]\n"bumpver.toml" = [\'current_version = "{version}"\']\n"a.txt" = ["ver {version} end"]\n'
               % (text, pattern, scope_line))
        invoker.write_tree(d, {"bumpver.toml": cfg.encode(), "a.txt": ("ver %s end\n" % text).encode()})
        rg = realgit.RealGit(d, clock, remote=False)
        rg.init()
        flag = [] if case["scope_from"] == "config" else ["--tag-scope", "branch"]
        bump = ["--patch"] if "PATCH" in rp.parts_of(tree) else []
        ctx.sample = {"campaign": self.name, "pattern": pattern, "branch": case["branch"], "scope_from": case["scope_from"]}
        facts = {"pattern": pattern, "branch_named_like_tag": case["branch"] == "@tag", "scope_from": case["scope_from"]}

        def one_update(where, prev):
            head0, tags0 = rg.head(), set(rg.tags())
            res = invoker.invoke(d, ["update", "--no-fetch"] + bump + flag, clock, fakevcs.VcsShim(None, forward_env=rg.env),
                                 realgit.PassthroughHooks())
            ctx.invocations += 1
            new = res.log_value("New Version: ") if res.exit_code == 0 else None
            ctx.event(where, res.exit_code, new)
            detail = "on %s after %r: exit %s %s" % (where, prev, res.exit_code, res.exc or [m for _l, _n, m in res.logs][-2:])
            if new is None:
                ctx.violation("C08", "update_blocked", facts, "a plain bump under tag scope branch failed " + detail)
                return None
            if pep440.cmp(new, prev) <= 0:
                ctx.violation("C08", "not_greater_than_previous", facts, "%r is not greater than %r %s" % (new, prev, detail))
                return None
            tags1 = set(rg.tags())
            if tags1 - tags0 != {new} or rg.tag_commit(new) != rg.head() or rg.commit_count("%s..HEAD" % head0) != 1:
                ctx.violation("C08", "tag_missing_or_wrong", facts, "new tags %s, HEAD moved by %d commits %s" % (
                    sorted(tags1 - tags0), rg.commit_count("%s..HEAD" % head0), detail))
                return None
            snap = invoker.snapshot(d)
            if ('"%s"' % new).encode() not in snap["bumpver.toml"] or snap["a.txt"] != ("ver %s end\n" % new).encode():
                ctx.violation("C08", "files_disagree_after_update", facts, "config / a.txt do not show %r %s" % (new, detail))
                return None
            # (`show` has no --tag-scope option: when the scope comes from the command line, `show` works under the default
            # scope and may print a newer tag from elsewhere)
            sres = invoker.invoke(d, ["show", "--no-fetch"], clock, fakevcs.VcsShim(None, forward_env=rg.env), None)
            ctx.invocations += 1
            shown = sres.out_value("Current Version: ")
            elsewhere = bool(flag) and shown in tags1 and pep440.cmp(shown, new) >= 0
            if sres.exit_code != 0 or (shown != new and not elsewhere):
                ctx.violation("C08", "show_disagrees", facts, "`show` prints %r (exit %s) after the update announced %r on %s" % (
                    shown, sres.exit_code, new, where))
                return None
            ctx.nontriv((pattern, case["branch"], case["scope_from"], where))
            ctx.probe("branch_scope_update_ok")
            return new

        cur = text
        for _ in range(case["main_updates"]):
            clock += dt.timedelta(days=2)
            rg.set_date(clock)
            cur = one_update("main", cur)
            if cur is None:
                return
        name = {"@tag": cur, "@tag-x": cur + "-x"}.get(case["branch"], case["branch"])
        rg.git("checkout", "-q", "-b", name)
        if name == cur:
            ctx.probe("branch_named_like_its_tag")
        on_branch = cur
        for _ in range(case["branch_updates"]):
            clock += dt.timedelta(days=2)
            rg.set_date(clock)
            on_branch = one_update("branch %s" % name, on_branch)
            if on_branch is None:
                return
