"""UNQUOTED: a TOML config whose `current_version` is written without quotes.

TOML then hands the parser a *number*: `1.10` is the float 1.1, `2026.1100` the float 2026.11 - the text of the version is
gone.  bumpver refuses such a config ("Invalid type for current_version").  Whatever a program does here, it must not carry on
from a version that is not the project's: either every command fails and nothing changes, or it behaves as if it had read the
text as written.  The oracle is two-sided on purpose (it holds for the refusing code and for a hypothetical lenient one that
reads the text); the focus decides which consequence of a misread version is reported:
  C01  the announced new version is not greater than the version in the file
  C14  a calendar part of the new version lies before the one in the file
  C17  the BUILD id of the new version is not greater than the one in the file"""
import datetime as dt

import runner
from sim import invoker
from ref import pattern as rp, pep440

PATTERNS = {
    "C01": ["MAJOR.MINOR", "MAJOR.BUILD", "YYYY.MINOR", "MAJOR.MINOR", "YY.MINOR"],
    "C14": ["YY.MM", "YYYY.MM", "YYYY.WW", "YYYY.JJJ", "YY.WW", "YYYY.UU"],
    "C17": ["YYYY.BUILD", "MAJOR.BUILD", "YY.BUILD", "YYYY.BUILD"],
}
TRAILING_ZERO = {"minor": [10, 20, 100, 110, 30], "bid": ["1100", "1200", "2000", "10000", "1010", "1990"],
                 "month": [10], "week_w": [10, 20, 30, 40, 50], "week_u": [10, 20, 30, 40, 50], "doy": [10, 100, 200, 250, 360]}


class Unquoted:
    def __init__(self, focus, quick, thorough):
        self.focus = focus
        self.name = "UNQUOTED/" + focus
        self._quick, self._thorough = quick, thorough

    def total(self, tier):
        return self._quick if tier == "quick" else self._thorough

    def deadline(self, tier):
        return 120 if tier == "quick" else 900

    def gen(self, seed, index, tier):
        rng = runner.rng_for(seed, self.name, index)
        pattern = rng.choice(PATTERNS[self.focus])
        tree = rp.tokenize(pattern)
        year = rng.randint(2005, 2090)
        day = dt.date(year, 1, 1) + dt.timedelta(days=rng.randint(0, 364))
        st = rp.state_for_date(tree, day, {"major": rng.choice([1, 2, 7, 12]), "minor": rng.randint(0, 30), "bid": str(rng.randint(1001, 1999))})
        st = {f: st[f] for f in rp.fields_of(tree)}
        if rng.random() < 0.7:
            # the states in which a float loses something: a trailing zero after the dot
            last = rp.fields_of(tree)[-1]
            if last in TRAILING_ZERO:
                st[last] = rng.choice(TRAILING_ZERO[last])
        delta = rng.choice([0, 1, 20, 45, 100, 200, -30, -100, -250])
        flags = []
        if "MINOR" in pattern and rng.random() < 0.7:
            flags = ["--minor"]
        elif "MAJOR" in pattern and rng.random() < 0.3:
            flags = ["--major"]
        return {"pattern": pattern, "state": st, "day": day.isoformat(), "delta": delta, "flags": flags,
                "syntax": rng.choice(["bumpver.toml", "pyproject.toml", ".bumpver.toml"]),
                "own_pattern": rng.choice(["quoted", "bare", "none"]), "ops": [{"op": "show"}, {"op": "update"}]}

    def run(self, case, ctx):
        pattern = case["pattern"]
        tree = rp.tokenize(pattern)
        st = dict(case["state"])
        try:
            text = rp.render(tree, st)
        except Exception:
            ctx.count("state_not_renderable")
            return
        if not text.replace(".", "", 1).isdigit() or not rp.accepts(tree, text):
            ctx.count("not_a_toml_number")
            return
        day = dt.date.fromisoformat(case["day"]) + dt.timedelta(days=case["delta"])
        sec = "tool.bumpver" if case["syntax"] == "pyproject.toml" else "bumpver"
        own = {"quoted": '"%s" = [\'current_version = "{version}"\']\n' % case["syntax"],
               "bare": '"%s" = ["current_version = {version}"]\n' % case["syntax"], "none": ""}[case["own_pattern"]]
        cfg = ('[%s]\ncurrent_version = %s\nversion_pattern = "%s"\n\n[%s.file_patterns]\n%s"version.txt" = ["{version}"]\n'
               % (sec, text, pattern, sec, own))
        d = invoker.new_dir("u")
        invoker.write_tree(d, {case["syntax"]: cfg.encode(), "version.txt": (text + "\n").encode()})
        ctx.sample = {"campaign": self.name, "pattern": pattern, "config_line": "current_version = " + text, "day": day.isoformat()}
        ctx.state((pattern, case["own_pattern"]))
        ctx.nontriv((pattern, text, case["delta"], tuple(case["flags"])))
        if float(text) != float(repr(float(text))) or repr(float(text)) != text:
            ctx.probe("text_is_not_the_float_repr")
        facts = {"pattern": pattern, "unquoted_toml_number": True}
        for op in case["ops"]:
            argv = ["show"] if op["op"] == "show" else ["update", "--date", day.isoformat()] + list(case["flags"])
            res = invoker.invoke(d, argv, day)
            ctx.invocations += 1
            ctx.event(argv, res.exit_code, invoker.digest_snapshot(res.after))
            if res.exit_code != 0:
                ctx.probe("refused")
                if res.changed:
                    ctx.violation("C01", "failed_update_changed_files", facts, "%s exit %s but files changed" % (argv, res.exit_code))
                continue
            ctx.probe("accepted")
            if op["op"] == "show":
                cur = res.out_value("Current Version: ")
                if cur != text:
                    ctx.violation(self.focus, "unquoted_version_misread", dict(facts, op="show"),
                                  "config says `current_version = %s`, `show` prints %r" % (text, cur))
                continue
            old = res.log_value("Old Version: ")
            new = res.log_value("New Version: ")
            if old != text:
                ctx.violation(self.focus, "unquoted_version_misread", dict(facts, op="update"),
                              "config says `current_version = %s`, update started from %r and announced %r" % (text, old, new))
            got = rp.recognise(tree, new or "")
            if not got:
                ctx.violation("C01", "announced_not_valid", facts, "announced %r is not a version of %r" % (new, pattern))
                continue
            nst = got[0]
            if self.focus == "C01" and pep440.cmp(new, text) <= 0:
                ctx.violation("C01", "not_strictly_greater", facts, "new %r is not greater than the version in the file %r" % (new, text))
            if self.focus == "C17" and "bid" in nst and int(nst["bid"]) <= int(st["bid"]):
                ctx.violation("C17", "build_not_greater_int", facts, "BUILD %s after %s (versions %r -> %r)" % (nst["bid"], st["bid"], text, new))
            if self.focus == "C14":
                for f in ("year_y", "month", "week_w", "week_u", "doy"):
                    if f in nst and (nst.get("year_y", 0), nst[f]) < (st.get("year_y", 0), st[f]):
                        ctx.violation("C14", "calendar_backwards", facts, "%s went from %s to %s (%r -> %r)" % (f, st[f], nst[f], text, new))
                        break
