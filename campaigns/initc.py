"""INIT (C19): every subset of the recognised project files x content kind per config-capable file x
simulated year; ops: init --dry, init, show, init again."""
import datetime as dt

import runner
from sim import invoker, fakevcs

PLAIN = ["README.md", "README.rst", "setup.py"]
CONFIGS = ["setup.cfg", "pyproject.toml", "bumpver.toml", ".bumpver.toml", "pycalver.toml"]
KINDS = ["absent", "empty", "unrelated_nl", "unrelated_nonl", "section", "section_crlf", "lookalike"]
SPACE = (2 ** len(PLAIN)) * (len(KINDS) ** len(CONFIGS))
DATES = [dt.datetime(2023, 6, 15, 12, 0, 0), dt.datetime(2023, 12, 31, 23, 59, 59), dt.datetime(2024, 1, 1, 0, 0, 1)]

PLAIN_CONTENT = {"README.md": b"# Demo\n\nSome text.\n", "README.rst": b"Demo\n====\n\ntext\n",
                 "setup.py": b"import setuptools\nsetuptools.setup(name='demo')\n"}


def unrelated(name, final_nl):
    if name.endswith(".toml"):
        # a static project version, double-quoted in one kind and single-quoted (legal TOML) in the other
        vline = 'version = "0.3.1"' if final_nl else "version = '0.3.1'"
        text = '[project]\nname = "demo"\n%s\ndescription = "about versions"\n\n[tool.black]\nline-length = 100' % vline
    else:
        text = "[metadata]\nname = demo\nversion = 0.3.1\n\n[flake8]\nmax-line-length = 100"
    return (text + ("\n" if final_nl else "")).encode()


def lookalike(name):
    """Other tools' sections that merely mention bumpver and a current_version key; not a bumpver configuration."""
    if name.endswith(".toml"):
        return (b'[project]\nname = "demo"\n\n[tool.hatch.envs.bumpver]\ndependencies = ["bumpver"]\n\n'
                b'[tool.other]\ncurrent_version = "9.9.9"\n')
    return b"[metadata]\nname = demo\n\n[tool:notbumpver]\ncurrent_version = 9.9.9\n"


def section(name, version):
    if name == "pyproject.toml":
        return ('[project]\nname = "demo"\n\n[tool.bumpver]\ncurrent_version = "%s"\nversion_pattern = "YYYY.BUILD[-TAG]"\n\n'
                '[tool.bumpver.file_patterns]\n"pyproject.toml" = [\'current_version = "{version}"\']\n' % version).encode()
    if name == "pycalver.toml":
        return ('[pycalver]\ncurrent_version = "%s"\nversion_pattern = "YYYY.BUILD[-TAG]"\n\n[pycalver.file_patterns]\n'
                '"pycalver.toml" = [\'current_version = "{version}"\']\n' % version).encode()
    if name.endswith(".toml"):
        return ('[bumpver]\ncurrent_version = "%s"\nversion_pattern = "YYYY.BUILD[-TAG]"\n\n[bumpver.file_patterns]\n'
                '"%s" = [\'current_version = "{version}"\']\n' % (version, name)).encode()
    return ('[metadata]\nname = demo\n\n[bumpver]\ncurrent_version = "%s"\nversion_pattern = "YYYY.BUILD[-TAG]"\n\n'
            '[bumpver:file_patterns]\nsetup.cfg =\n    current_version = "{version}"\n' % version).encode()


def restyle_section(name, data, style):
    """The same section in another legal spelling (only the lines of the bumpver sections are touched)."""
    if style == "plain":
        return data
    out = []
    inside = False
    for line in data.decode().split("\n"):
        if line.startswith("["):
            inside = any(w in line for w in ("bumpver", "pycalver"))
            out.append(line)
            continue
        if not inside or not line.strip():
            out.append(line)
            continue
        if style == "indented" and not line.startswith(" "):
            line = "  " + line
        elif style == "tabs" and not line.startswith(" "):
            line = "\t" + line if name.endswith(".toml") else line
        elif style == "tight" and " = " in line and not line.startswith(" "):
            k, v = line.split(" = ", 1)
            line = k + "=" + v
        elif style == "quoted_keys" and name.endswith(".toml") and " = " in line and not line.startswith(('"', "'", " ")):
            k, v = line.split(" = ", 1)
            line = '"%s" = %s' % (k, v)
        out.append(line)
    return "\n".join(out).encode()


def decode(point):
    cfg = {}
    for name in PLAIN:
        cfg[name] = "present" if point % 2 else "absent"
        point //= 2
    for name in CONFIGS:
        cfg[name] = KINDS[point % len(KINDS)]
        point //= len(KINDS)
    return cfg


class Init:
    def __init__(self, focus, quick):
        self.name = "INIT/" + focus
        self._quick = quick

    def total(self, tier):
        return self._quick if tier == "quick" else SPACE * len(DATES)

    def deadline(self, tier):
        return 170 if tier == "quick" else 1500

    def gen(self, seed, index, tier):
        rng = runner.rng_for(seed, self.name, index)
        if tier == "thorough":
            point, di = index % SPACE, index // SPACE
        else:
            point, di = rng.randrange(SPACE), rng.randrange(len(DATES))
        # long files: the unrelated content / the existing section sits behind many kilobytes of other tools' settings
        # vcs: none at all / the project's own repository / only an *enclosing* repository (the project is a new directory
        # inside some other working tree - a mono-repo, a dotfiles repository - whose tags are none of its business)
        return {"point": point, "date": di, "vcs": rng.choice([None, None, "git", "enclosing"]), "ops": [{"op": "init-sequence"}],
                "pad": rng.choice([0, 0, 0, 0, 9000, 70000]),
                # how an existing section is written: as `init` writes it, uniformly indented (legal in both syntaxes),
                # `key=value` without blanks, or (TOML) with quoted keys
                "sect_style": rng.choice(["plain", "plain", "plain", "indented", "tight", "quoted_keys", "tabs"]),
                # leftovers of an interrupted earlier run or of an editor: not project files, must not matter
                "latin1": rng.random() < 0.3,
                # fidelity: the whole sequence as real `python -m bumpver` processes, also with assert statements compiled
                # away (python -O / PYTHONOPTIMIZE, as some deployments set it globally)
                # a project half-way from PyCalVer to bumpver: pycalver.toml still holds its old [pycalver] table, which has a
                # current_version but (as PyCalVer allowed) no version_pattern - a section bumpver cannot use as it stands
                "legacy_partial": rng.random() < (0.04 if tier == "quick" else 0.004),
                "child_opt": rng.choice(["", "1", "2"]) if rng.random() < (0.03 if tier == "quick" else 0.004) else None,
                "stale": rng.choice([None, None, None, ["bumpver.toml.tmp"], ["setup.cfg.tmp", "pyproject.toml.tmp"],
                                     ["bumpver.toml.bak", "pyproject.toml~"], [".bumpver.toml.swp", "pycalver.toml.tmp"]])}

    def run(self, case, ctx):
        layout = decode(case["point"])
        now = DATES[case["date"]]
        year = now.year
        d = invoker.new_dir("i")
        files = {}
        sectioned = {}
        for i, (name, kind) in enumerate(layout.items()):
            if kind == "absent":
                continue
            if kind == "present":
                files[name] = PLAIN_CONTENT[name]
            elif kind == "empty":
                files[name] = b""
            elif kind == "unrelated_nl":
                files[name] = unrelated(name, True)
            elif kind == "unrelated_nonl":
                files[name] = unrelated(name, False)
            elif kind == "lookalike":
                files[name] = lookalike(name)
            else:
                version = "%d.%d" % (2001 + i, 1001 + i)
                sectioned[name] = version
                files[name] = section(name, version)
                files[name] = restyle_section(name, files[name], case.get("sect_style", "plain"))
                if kind == "section_crlf":
                    # the same section as written by an editor that uses CRLF line endings
                    files[name] = files[name].replace(b"\n", b"\r\n")
        if case.get("pad"):
            line = b"# " + b"other tools' settings, kept by the project for years; " * 2 + b"\n"
            padding = line * (case["pad"] // len(line) + 1)
            for name in CONFIGS:
                if files.get(name):
                    files[name] = padding + files[name]
            ctx.probe("long_config_file")
        if case.get("latin1") and layout.get("setup.cfg") in ("unrelated_nl", "unrelated_nonl") and \
                any(layout[n] != "absent" for n in CONFIGS if n != "setup.cfg"):
            # an old setup.cfg saved as ISO-8859-1; it ranks last among the candidates and holds no bumpver section, so it is
            # neither the file `init` writes to nor the one `show` reads
            files["setup.cfg"] = files["setup.cfg"].replace(b"name = demo", b"name = demo\nauthor = Jos\xe9 M\xfcller")
            ctx.probe("non_utf8_sibling_config")
        for name in case.get("stale") or []:
            files[name] = section("bumpver.toml", "2019.1001")
            ctx.probe("stale_scratch_file")
        legacy_partial = bool(case.get("legacy_partial")) and not sectioned
        if legacy_partial:
            files["pycalver.toml"] = (b'[pycalver]\ncurrent_version = "v201812.0033-beta"\ncommit = true\ntag = true\n\n'
                                      b'[pycalver.file_patterns]\n"README.md" = ["{version}"]\n')
            ctx.probe("partly_valid_legacy_section")
        invoker.write_tree(d, files)
        if case.get("vcs") == "git":
            import os
            os.mkdir(os.path.join(d, ".git"))
        def outer_repo():
            repo = fakevcs.FakeRepo("git", remote=False)
            for t in ("%d.1002" % year, "%d.1005-beta" % (year + 3), "v1.2.3"):
                repo.tags[t] = repo.head_commit()
            return fakevcs.VcsShim(repo)

        if case.get("vcs") == "enclosing":
            shim = outer_repo
            ctx.probe("enclosing_repository_only")
        else:
            shim = (lambda: fakevcs.VcsShim(fakevcs.FakeRepo("git", remote=False))) if case.get("vcs") else (lambda: None)
        today = now.date()
        key = tuple(sorted(layout.items()))
        ctx.state((tuple(k for k in layout.values()),))
        ctx.nontriv((case["point"], case["date"]))
        ctx.sample = {"campaign": self.name, "layout": {k: v for k, v in layout.items() if v != "absent"}, "now": now.isoformat()}
        facts = {"sectioned": sorted(sectioned), "present": sorted(files)}

        child = case.get("child_opt") if not case.get("vcs") else None
        if child is not None:
            import datetime as _dt
            year = _dt.datetime.now(_dt.timezone.utc).year      # a real process reads the real clock
            ctx.probe("child_process_sequence" + ("_optimized" if child else ""))

        def run(argv):
            if child is not None:
                res = invoker.invoke_child(d, argv, extra_env={"PYTHONOPTIMIZE": child} if child else None)
            else:
                res = invoker.invoke(d, argv, today, shim(), None, now=now)
            ctx.invocations += 1
            ctx.event(argv, res.exit_code, invoker.digest_snapshot(res.after))
            return res

        if sectioned:
            ctx.probe("existing_section")
            r = run(["init"])
            if r.exit_code == 0 or r.changed:
                ctx.violation("C19", "init_over_existing_config", facts,
                              "%s already hold(s) a bumpver section, yet `init` exit %s and %s" % (
                                  sorted(sectioned), r.exit_code, "changed files" if r.changed else "changed nothing"))
            r = run(["init", "--dry"])
            if r.changed:
                ctx.violation("C19", "init_dry_wrote", facts, "`init --dry` changed files")
            s = run(["show", "--no-fetch"])
            cur = s.out_value("Current Version: ")
            if s.exit_code != 0 or cur not in sectioned.values():
                ctx.violation("C19", "configured_file_not_preferred", facts,
                              "`show` exit %s prints %r; files with a bumpver section: %s; other files: %s (%s)" % (
                                  s.exit_code, cur, sectioned, sorted(set(files) - set(sectioned)),
                                  [m for _l, _n, m in s.logs][-2:]))
            return
        ctx.probe("no_prior_config")
        r = run(["init", "--dry"])
        if r.exit_code != 0 or r.changed:
            ctx.violation("C19", "init_dry_wrote", facts, "`init --dry` exit %s, files %s" % (
                r.exit_code, "changed" if r.changed else "unchanged"))
        r = run(["init"])
        changed = sorted(p for p in set(r.before) | set(r.after) if r.before.get(p) != r.after.get(p))
        if r.exit_code != 0:
            ctx.violation("C19", "init_failed", facts, "`init` exit %s (%s)" % (r.exit_code, r.exc or [m for _l, _n, m in r.logs][-2:]))
            return
        if len(changed) != 1:
            ctx.violation("C19", "init_touched_several_files", facts, "`init` changed %s" % changed)
            return
        target = changed[0]
        if legacy_partial and target != "pycalver.toml":
            ctx.violation("C19", "configured_file_not_preferred", dict(facts, target=target),
                          "pycalver.toml holds a section with a current_version, yet `init` wrote its configuration to %s" % target)
        prior = r.before.get(target, b"")
        if not r.after[target].startswith(prior):
            ctx.violation("C19", "init_clobbered_content", dict(facts, target=target),
                          "prior content of %s is not a prefix of its new content" % target)
        ctx.probe("init_wrote_" + target)
        ctx.transition((target, tuple(v for v in layout.values())))
        s = run(["show", "--no-fetch"])
        cur = s.out_value("Current Version: ")
        want = "%d.1001-alpha" % year
        if s.exit_code != 0 or cur != want:
            ctx.violation("C19", "show_after_init", dict(facts, target=target),
                          "`show` after `init` (wrote %s) exit %s prints %r, expected %r (%s)" % (
                              target, s.exit_code, cur, want, s.exc or [m for _l, _n, m in s.logs][-2:]))
        if s.changed:
            ctx.violation("C19", "show_changed_files", facts, "`show` changed files")
        r2 = run(["init"])
        if r2.exit_code == 0 or r2.changed:
            ctx.violation("C19", "second_init_not_refused", dict(facts, target=target),
                          "second `init` exit %s, files %s" % (r2.exit_code, "changed" if r2.changed else "unchanged"))
