"""DIRTY (C11): every status real git can report for a file x {pattern file, unrelated file} x --allow-dirty,
in real temporary repositories; the status text is whatever `git status --porcelain` prints."""
import os
import datetime as dt

import runner
from sim import invoker, fakevcs, realgit

STATUSES = ["clean", "modified_unstaged", "modified_staged", "modified_both", "added", "added_modified",
            "deleted_unstaged", "deleted_staged", "renamed", "untracked", "removed_from_index"]
# what git prints in the two status columns for each kind (validated on every run; a mismatch is a harness error)
EXPECT_XY = {"modified_unstaged": " M", "modified_staged": "M ", "modified_both": "MM", "added": "A ", "added_modified": "AM",
             "deleted_unstaged": " D", "deleted_staged": "D ", "renamed": "R ", "untracked": "??",
             # `git rm --cached`: the file stays on disk; git lists the path twice, as a staged deletion and as untracked
             "removed_from_index": "D "}
TODAY = dt.date(2022, 3, 4)

CFG = ('[bumpver]\ncurrent_version = "1.2.3"\nversion_pattern = "MAJOR.MINOR.PATCH"\ncommit = true\ntag = true\npush = false\n\n'
       '[bumpver.file_patterns]\n"bumpver.toml" = [\'current_version = "{version}"\']\n"a.txt" = ["ver {version}"]\n'
       '"./sub/b.txt" = ["pep {pep440_version}"]\n"docs/series.txt" = ["series MAJOR.MINOR docs"]\n"rel notes/what is new.txt" = ["now {version}"]\n"pkg/deep/inner/c.txt" = ["deep {version}"]\n"data/*.dat" = ["dat {version}"]\n')
# a file reached through a glob whose name is not valid UTF-8 (written by a latin-1 system): b"data/caf\xe9.dat"
LATIN1 = "data/caf\udce9.dat"
FILES = {"bumpver.toml": CFG.encode(), "a.txt": b"head\nver 1.2.3\ntail\n", "sub/b.txt": b"pep 1.2.3\nmore\n",
         "other.txt": b"unrelated\nline\n", "docs/x.txt": b"docs\n", "docs/series.txt": b"intro\nseries 1.2 docs\nend\n", "rel notes/what is new.txt": b"now 1.2.3\n",
         "pkg/deep/inner/c.txt": b"deep 1.2.3\n", LATIN1: b"dat 1.2.3\n", "NOTES": b"unrelated notes\nmore\n"}
# docs/series.txt carries a pattern whose rendering does not change with a --patch bump: still a pattern file
# "rel notes/what is new.txt" is printed C-quoted by `git status --porcelain`
# "pkg/deep/inner/c.txt" is the only file below pkg/: untracked, git reports just `?? pkg/` (three levels above the file)
PATTERN_FILES = ["a.txt", "sub/b.txt", "bumpver.toml", "docs/series.txt", "rel notes/what is new.txt", "pkg/deep/inner/c.txt", LATIN1]
UNRELATED = ["other.txt", "docs/x.txt", "NOTES"]
# "NOTES" stands for a file that was called "doc" in the last commit (`git mv doc NOTES`): in `git status -z` the rename's old
# path is an entry of three characters, and the next entry in path order is that of a.txt


# settings people keep in ~/.gitconfig that change what `git status` / `git branch` print
USER_CONFIGS = [None, None, None, "[status]\n\tshowUntrackedFiles = no\n", "[status]\n\tshowUntrackedFiles = all\n",
                "[color]\n\tui = always\n\tstatus = always\n\tbranch = always\n", "[core]\n\tquotePath = true\n",
                "[status]\n\tshort = true\n\tbranch = true\n",
                # an ignore file git cannot get at (a symlink loop; under sudo or in containers: permission denied): every git
                # command then prints a warning on stderr - and works
                "[core]\n\texcludesFile = @LOOP@/ignore\n"]


def cases_matrix():
    out = []
    for st in STATUSES:
        for target in ("pattern", "pattern_unchanged", "pattern_quoted_name", "pattern_respelled_key", "pattern_deep",
                       "pattern_latin1_name", "unrelated"):
            for allow in (False, True):
                out.append({"dirt": [{"status": st, "target": target}], "allow": allow})
    return out


def apply_status(rg, d, path, status, is_pattern):
    """Bring `path` into `status`.  Files that must not exist in the first commit were left out by the caller."""
    full = os.path.join(d, path)

    def edit(suffix):
        with open(full, "ab") as fobj:
            fobj.write(suffix)

    if status == "clean":
        return
    if status == "modified_unstaged":
        edit(b"edit-unstaged\n")
    elif status == "modified_staged":
        edit(b"edit-staged\n")
        rg.git("add", "--", path)
    elif status == "modified_both":
        edit(b"edit-staged\n")
        rg.git("add", "--", path)
        edit(b"edit-unstaged\n")
    elif status == "added":
        rg.git("add", "--", path)
    elif status == "added_modified":
        rg.git("add", "--", path)
        edit(b"edit-unstaged\n")
    elif status == "deleted_unstaged":
        os.unlink(full)
    elif status == "deleted_staged":
        rg.git("rm", "-q", "--", path)
    elif status == "renamed":
        rg.git("mv", "--", ("doc" if path == "NOTES" else path + ".old"), path)
    elif status == "untracked":
        pass
    elif status == "removed_from_index":
        rg.git("rm", "-q", "--cached", "--", path)


class Dirty:
    def __init__(self, focus, quick, thorough):
        self.name = "DIRTY/" + focus
        self._quick, self._thorough = quick, thorough
        self.matrix = cases_matrix()

    def total(self, tier):
        return 5 * len(self.matrix) + (self._quick if tier == "quick" else self._thorough)

    def deadline(self, tier):
        return 170 if tier == "quick" else 1500

    def gen(self, seed, index, tier):
        if index < 5 * len(self.matrix):
            case = dict(self.matrix[index % len(self.matrix)])
            index4 = index // len(self.matrix)
            case["dirt"] = [dict(x, path={"pattern": "a.txt", "pattern_unchanged": "docs/series.txt", "pattern_quoted_name": "rel notes/what is new.txt",
                                        "pattern_respelled_key": "sub/b.txt", "pattern_deep": "pkg/deep/inner/c.txt", "pattern_latin1_name": LATIN1}.get(x["target"], "other.txt"),
                                 target=("pattern" if x["target"].startswith("pattern") else "unrelated")) for x in case["dirt"]]
            # flags that have nothing to do with the dirty check must not influence it
            case["extra"] = [[], ["--ignore-vcs-tag"], ["--tag-scope", "branch"], ["--pin-increments"], ["-vv"]][index4]
            # the developer's tree may hold many other uncommitted files (listed before the pattern files by git)
            case["many"] = [0, 0, 14, 0, 0][index4]
            case["user_config"] = USER_CONFIGS[(index // 7) % len(USER_CONFIGS)] if index4 == 3 else None
            case["link"] = [None, None, None, "a.txt", "docs/series.txt"][(index // 3) % 5] if index4 == 1 else None
        else:
            rng = runner.rng_for(seed, self.name, index)
            dirt = []
            used = set()
            for _ in range(rng.choice([2, 2, 3])):
                target = rng.choice(["pattern", "unrelated"])
                path = rng.choice(PATTERN_FILES if target == "pattern" else UNRELATED)
                if path in used:
                    continue
                used.add(path)
                st = rng.choice(STATUSES)
                if path == "bumpver.toml" and st in ("added", "added_modified", "untracked", "renamed", "deleted_unstaged", "deleted_staged",
                                                     "removed_from_index"):
                    st = rng.choice(["modified_unstaged", "modified_staged", "modified_both"])
                dirt.append({"status": st, "target": target, "path": path})
            if rng.random() < 0.15:
                dirt = [{"status": "renamed", "target": "unrelated", "path": "NOTES"},
                        {"status": rng.choice(["modified_unstaged", "modified_staged", "modified_both"]), "target": "pattern", "path": "a.txt"}]
            case = {"dirt": dirt, "allow": rng.random() < 0.6, "many": rng.choice([0, 0, 0, 9, 11, 12, 30]),
                    "user_config": rng.choice(USER_CONFIGS),
                    "link": rng.choice([None, None, None, None, "a.txt", "docs/series.txt"]),
                    "extra": rng.choice([[], [], ["--ignore-vcs-tag"], ["--tag-scope", "global"], ["--tag-scope", "branch"],
                                         ["--pin-increments"], ["--commit"], ["--tag-commit"], ["--no-push"], ["-v"], ["-vv"], ["-vv"],
                                         ["--verbose", "--verbose"]])}
        case["ops"] = [{"op": "update"}]
        return case

    def run(self, case, ctx):
        d = invoker.new_dir("d")
        late = {}     # files that must not be part of the first commit
        files = dict(FILES)
        for x in case["dirt"]:
            if x["status"] in ("added", "added_modified", "untracked"):
                late[x["path"]] = files.pop(x["path"])
            elif x["status"] == "renamed":
                files[("doc" if x["path"] == "NOTES" else x["path"] + ".old")] = files.pop(x["path"])
        many = ["0many/f%02d.txt" % i for i in range(case.get("many", 0))]
        for m in many:
            files[m] = b"unrelated work\n"
        invoker.write_tree(d, files)
        user_config = case.get("user_config")
        if user_config and "@LOOP@" in user_config:
            loop = d + ".loop"
            os.symlink(loop, loop)
            user_config = user_config.replace("@LOOP@", loop)
        rg = realgit.RealGit(d, TODAY, remote=False, user_config=user_config)
        rg.init()
        if case.get("user_config"):
            ctx.probe("user_gitconfig_" + case["user_config"].split("]")[0].strip("[") + "_" +
                      case["user_config"].split("\t")[1].split(" ")[0])
        invoker.write_tree(d, late)
        for m in many:
            with open(os.path.join(d, m), "ab") as fobj:
                fobj.write(b"in progress\n")
        if many:
            ctx.probe("many_unrelated_dirty_files")
        if case.get("link") and os.path.exists(os.path.join(d, case["link"])):
            # an untracked symlink that points at a pattern file (LATEST -> a.txt): an untracked file like any other, the
            # pattern file itself is as clean or dirty as it was
            os.symlink(case["link"], os.path.join(d, "LATEST"))
            ctx.probe("untracked_symlink_to_pattern_file")
        for x in case["dirt"]:
            apply_status(rg, d, x["path"], x["status"], x["target"] == "pattern")
        porcelain = rg.status()
        for x in case["dirt"]:
            if x["status"] == "clean":
                continue
            want = EXPECT_XY[x["status"]]
            def names(line):
                shown = line[3:].split(" -> ")[-1].strip('"')
                if "/" in shown and shown.endswith("/") is False and x["path"].endswith(shown.split("/")[-1]) and " " in x["path"]:
                    shown = x["path"] if shown.replace('"', "") == x["path"] else shown
                return shown == x["path"] or (shown.endswith("/") and x["path"].startswith(shown))  # `?? dir/`

            if not any(line[:2] == want and names(line) for line in porcelain.splitlines()):
                raise invoker.HarnessError("git reports %r, expected %r for %s in state %s" % (porcelain, want, x["path"], x["status"]))
        head0 = rg.head()
        tags0 = rg.tags()
        argv = ["update", "--patch", "--no-fetch"] + (["--allow-dirty"] if case["allow"] else []) + list(case.get("extra", []))
        res = invoker.invoke(d, argv, TODAY, fakevcs.VcsShim(None, forward_env=rg.env), fakevcs.HookShim({}))
        ctx.invocations += 1
        head1 = rg.head()
        tags1 = rg.tags()
        ctx.event(argv, porcelain, res.exit_code, invoker.digest_snapshot(res.after), head1 != head0, tags1)
        dirt = [x for x in case["dirt"] if x["status"] != "clean"]
        dirt = dirt + [{"status": "modified_unstaged", "target": "unrelated", "path": m} for m in many]
        tracked_change = [x for x in dirt if x["status"] != "untracked"]
        pattern_dirty = [x for x in dirt if x["target"] == "pattern"]
        key = tuple(sorted((x["status"], x["target"]) for x in dirt)) + (tuple(case.get("extra", [])), case["allow"])
        ctx.nontriv(key)
        ctx.state(key[:-1])
        ctx.transition(key + (res.exit_code,))
        for x in dirt:
            ctx.probe("status_%s_%s" % (x["status"], x["target"]))
        facts = {"allow_dirty": case["allow"], "statuses": sorted(set(x["status"] for x in dirt)),
                 "pattern_dirty": sorted(set(x["status"] for x in pattern_dirty)),
                 "untracked_dir": any(line.startswith("??") and line.endswith("/") for line in porcelain.splitlines()),
                 "user_config": (case.get("user_config") or "").replace("\n", " ").replace("\t", "").strip() or None}
        ctx.sample = {"campaign": self.name, "dirt": case["dirt"], "allow_dirty": case["allow"], "porcelain": porcelain,
                      "exit": res.exit_code}
        detail = "porcelain %r argv %s -> exit %s, HEAD %s, tags %s (%s)" % (
            porcelain, argv, res.exit_code, "moved" if head1 != head0 else "same", tags1,
            res.exc or [m for _l, _n, m in res.logs][-3:])
        must_abort = (not case["allow"] and (tracked_change or pattern_dirty)) or (case["allow"] and pattern_dirty)
        if must_abort:
            why = "a pattern file has uncommitted changes" if pattern_dirty else "the tree is dirty and --allow-dirty was not given"
            if res.exit_code == 0 or res.changed or head1 != head0 or tags1 != tags0:
                if head1 != head0:
                    swept = rg.files_of("HEAD")
                    detail += " commit contains %s" % swept
                ctx.violation("C11", "dirty_not_aborted", facts, "%s, yet: %s" % (why, detail))
            return
        # must proceed: only untracked non-pattern files, or --allow-dirty with unrelated changes only
        if res.exit_code != 0 or head1 == head0:
            ctx.violation("C11", "clean_enough_but_blocked", facts, "nothing forbids this update, yet: " + detail)
            return
        committed = rg.files_of("HEAD")
        unstaged_unrelated = [x["path"] for x in dirt if x["target"] == "unrelated" and
                              x["status"] in ("modified_unstaged", "deleted_unstaged", "untracked")]
        swept = [p for p in committed if p in unstaged_unrelated]
        if swept:
            ctx.violation("C11", "unrelated_change_swept_in", facts, "bump commit contains %s: %s" % (swept, detail))
        if not (set(PATTERN_FILES) - {"docs/series.txt"}) <= set(committed):
            ctx.violation("C11", "bump_commit_incomplete", facts, "bump commit %s lacks configured files: %s" % (committed, detail))
