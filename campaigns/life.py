"""LIFE: histories of `update` / `update --dry` / `show` invocations in a generated project under a
simulated clock.  The state left by invocation n is the input of invocation n+1.
Serves C01 (update leg), C02 (show / next run accept), C03, C04, C15 (slots), C05 and C14 (bump legs)."""
import datetime as dt

import runner
from sim import invoker, fakevcs, adapter, world as simworld
from ref import pattern as rp, pep440, legacy
from gen import patterns as gp, layouts
from campaigns import testcmd as tc


def gen_ops(rng, tree, nmin=1, nmax=6, sv_rate=0.1, dry_rate=0.2, show_rate=0.25):
    ops = []
    for _ in range(rng.randint(nmin, nmax)):
        op = {"op": "update", "flags": gp.gen_flags(rng, tree), "delta": gp.gen_clock_delta(rng),
              "date_flag": rng.random() < 0.4, "dry": rng.random() < dry_rate, "spell": rng.choice([0, 0, 0, 1, 2, 4, 3, 5])}
        if rng.random() < sv_rate:
            op["sv"] = rng.choice(tc.SV_KINDS)
        if rng.random() < 0.15:
            op["verbose"] = rng.choice(["-v", "-vv", "--verbose"])   # must not change any outcome
        if rng.random() < 0.1:
            # the tag invariant is waived, nothing else: in these worlds config and tags agree, so every rule stays as it is
            op["ignore_vcs_tag"] = True
        ops.append(op)
        if rng.random() < show_rate:
            ops.append({"op": "show"})
    return ops


def project_probes(ctx, project):
    if project.get("style", {}).get("foreign_section"):
        ctx.probe("config_shared_with_bumpversion")
    for f in project["files"]:
        ctx.probe("file_regime_" + f.get("regime", "lf"))
        if f.get("shared_lines"):
            ctx.probe("two_patterns_one_line", f["shared_lines"])
        if f.get("overlap"):
            ctx.probe("overlapping_bare_patterns")
        if f.get("nested"):
            ctx.probe("matches_nested_in_an_earlier_match")
        if f.get("twin_context"):
            ctx.probe("same_context_other_pattern_in_another_file")
        if f.get("symlink_to"):
            ctx.probe("symlinked_pattern_file")
        if f.get("huge_line"):
            ctx.probe("line_longer_than_128KiB")
        if f.get("blank_delimited"):
            ctx.probe("toml_pattern_delimited_by_blanks")
        if any(isinstance(p_, str) and p_.startswith("@kt") for p_ in f.get("patterns", [])):
            ctx.probe("tag_only_pattern_on_digit_free_line")
        if any(isinstance(p_, str) and ("{0}" in p_ or "{1,3}" in p_ or "a{2}" in p_) for p_ in f.get("patterns", [])):
            ctx.probe("quantifier_shaped_literal_in_pattern")
        if f.get("bare"):
            ctx.probe("bare_version_pattern")
        if f.get("globbed"):
            ctx.probe("glob_entry")
        if f.get("repeated_entry"):
            ctx.probe("repeated_file_entry")
        if f.get("respelled"):
            ctx.probe("respelled_path_key")
        if f.get("glob_group"):
            ctx.probe("recursive_glob_group")
        if f.get("wide_group"):
            ctx.probe("file_of_a_glob_with_6000_chars_of_paths")
        if f.get("extra_entry"):
            ctx.probe("group_file_with_entry_of_its_own")
        if f["lines"] and f["lines"][-1]["end"] == "":
            ctx.probe("no_final_newline")
        if f["lines"] and f["lines"][0]["segs"] and isinstance(f["lines"][0]["segs"][0], str) and \
                f["lines"][0]["segs"][0].startswith("﻿"):
            ctx.probe("bom_file")
    ctx.probe("syntax_" + project["syntax"])
    if project.get("twin_pair"):
        ctx.probe("same_context_pair_in_one_file")
    if project.get("clock_slots"):
        ctx.probe("calendar_pattern_beside_semver")
    if project.get("cfg_glob"):
        ctx.probe("glob_covers_config_file")


def do_show(ctx, w, clock, text, extra_argv=(), state=None):
    shim = fakevcs.VcsShim(w.repo) if w.repo is not None else None
    res = invoker.invoke(w.dir, ["show"] + list(extra_argv), clock, shim, None)
    ctx.invocations += 1
    cur = res.out_value("Current Version: ")
    ctx.event("show", res.exit_code, cur)
    if res.exit_code != 0 or cur != text:
        ctx.violation("C02", "show_disagrees", tc.facts_for(w.vtree, state or {}, None, {}, w.vpattern),
                      "`show` exit %s prints %r, the version left by the last run is %r (%s)" % (
                          res.exit_code, cur, text, res.exc or [m for _l, _n, m in res.logs][-2:]))
    elif pep440.is_pep440(text):
        pep = res.out_value("PEP440         : ")
        if pep is None or not pep440.is_pep440(pep) or pep440.cmp(pep, text) != 0:
            ctx.violation("C15", "show_pep440_line", {"pattern": w.vpattern, "text": text, "shown": pep},
                          "`show` PEP440 line %r does not denote %r" % (pep, text))
    if res.before != res.after:
        ctx.violation("C04", "show_changed_files", {}, "`show` changed files")
    return res


class Life:
    def __init__(self, focus, quick, thorough, mode="plain", allow_mixed=True, sv_rate=0.1, vcs="maybe", family=None,
                 nmax=6, dry_rate=0.2, pep_any=False, force_pep=False, zero_bid=False, grep_pep=False, twin_pair=False,
                 invalid_utf8=False):
        self.twin_pair = twin_pair
        self.invalid_utf8 = invalid_utf8
        self.focus = focus
        self.name = "LIFE/" + focus
        self._quick, self._thorough = quick, thorough
        self.mode = mode
        self.allow_mixed = allow_mixed
        self.sv_rate = sv_rate
        self.vcs = vcs
        self.family = family
        self.nmax = nmax
        self.dry_rate = dry_rate
        self.pep_any, self.force_pep, self.zero_bid, self.grep_pep = pep_any, force_pep, zero_bid, grep_pep

    def total(self, tier):
        return self._quick if tier == "quick" else self._thorough

    def deadline(self, tier):
        return 160 if tier == "quick" else 1500

    def gen(self, seed, index, tier):
        rng = runner.rng_for(seed, self.name, index)
        vcs = self.vcs
        mode = self.mode if self.mode != "mix" else ("bytes" if rng.random() < 0.3 else "plain")
        project = layouts.gen_project(rng, mode=mode, allow_mixed=self.allow_mixed, vcs=vcs, family=self.family,
                                      pep_any=self.pep_any, force_pep=self.force_pep, zero_bid=self.zero_bid,
                                      legacy=(self.family == "legacy"), twin_pair=self.twin_pair, invalid_utf8=self.invalid_utf8)
        if project["vcs"] is not None:
            # quoting of odd paths at the VCS seam is C12's subject; keep this campaign's failures version-caused
            if any(ch in f["path"] for f in project["files"] for ch in " '\"") or \
                    any(ord(ch) > 127 for f in project["files"] for ch in f["path"]):
                project["vcs"] = None
                for k in ("commit", "tag", "push"):
                    if k in project["cfg"]:
                        project["cfg"][k] = False
        tree = legacy.tokenize_any(project["version_pattern"])
        ops = gen_ops(rng, tree, 1, self.nmax, self.sv_rate, self.dry_rate)
        return {"project": project, "ops": ops, "glob_seed": rng.randrange(1 << 30)}

    def shrink(self, case):
        proj = case["project"]
        # drop whole files (and their config entries)
        for i, f in enumerate(proj["files"]):
            if len(proj["files"]) <= 1:
                break
            cand = dict(case)
            p2 = dict(proj)
            p2["files"] = proj["files"][:i] + proj["files"][i + 1:]
            cfg = dict(proj["cfg"])
            import fnmatch
            keep = []
            for key, pats in cfg["file_patterns"]:
                if key == proj["syntax"] or any(fnmatch.fnmatch(g["path"], key) or g["path"] == key for g in p2["files"]):
                    keep.append([key, pats])
            cfg["file_patterns"] = keep
            p2["cfg"] = cfg
            cand["project"] = p2
            yield cand
        if proj.get("extra"):
            cand = dict(case)
            p2 = dict(proj)
            p2["extra"] = {}
            cand["project"] = p2
            yield cand
        # drop filler-only lines
        for fi, f in enumerate(proj["files"]):
            lines = f["lines"]
            for li, line in enumerate(lines):
                if all(isinstance(s, str) for s in line["segs"]) and len(lines) > 1 and li != len(lines) - 1:
                    cand = dict(case)
                    p2 = dict(proj)
                    f2 = dict(f)
                    f2["lines"] = lines[:li] + lines[li + 1:]
                    p2["files"] = proj["files"][:fi] + [f2] + proj["files"][fi + 1:]
                    cand["project"] = p2
                    yield cand
                    break

    def run(self, case, ctx):
        project = case["project"]
        w = simworld.World(project)
        w.materialise()
        tree = w.vtree
        pattern = w.vpattern
        state = dict(project["state"])
        text = rp.render(tree, state)
        clock = dt.date.fromisoformat(project["epoch"])
        two_digit = gp.has_two_digit_year(tree)
        project_probes(ctx, project)
        grng = __import__("random").Random(case.get("glob_seed", 0))

        def glob_perm(items):
            items = list(items)
            grng.shuffle(items)
            return items

        ctx.sample = {"campaign": self.name, "pattern": pattern, "start": text, "syntax": project["syntax"],
                      "files": {f["path"]: f["patterns"] for f in project["files"]}, "ops": case["ops"][:4]}
        if self.grep_pep and tc.facts_for(tree, state, None, {}, pattern)["week53"]:
            ctx.count("steered_week53")  # week 53 is the known finding of C02/C05, not C15's subject
        elif self.grep_pep and pep440.is_pep440(text):
            snap0 = invoker.snapshot(w.dir)
            f0 = {"pattern": pattern, "nondot_sep": not layouts.pep_friendly(pattern),
                  "bld_zero": "bid" in state and int(state["bid"]) == 0, "initial": True}
            for f in project["files"]:
                for raw in f["patterns"]:
                    if "{pep440_version}" in raw and not adapter.search_pattern_finds(
                            pattern, raw, snap0.get(f["path"], b"").decode("utf-8", "replace")):
                        ctx.violation("C15", "pep440_slot_not_found_again", dict(f0, path=f["path"]),
                                      "the {pep440_version} text bumpver renders for %r (%r) is not accepted by the "
                                      "derived search pattern %r" % (text, w.pep_initial(text), raw))
        # C02 for search patterns: what the rewrite step renders for a pattern is accepted in full by the recogniser
        # compiled from that same pattern
        for f in project["files"]:
            for raw in f["patterns"]:
                try:
                    rt = adapter.search_pattern_round_trip(pattern, raw, text)
                except invoker.HarnessError:
                    raise
                except Exception as ex:
                    rt = ("<%s: %s>" % (type(ex).__name__, ex), False)
                if rt is None:
                    continue
                ctx.probe("search_pattern_round_trip")
                if not rt[1]:
                    ctx.violation("C02", "render_not_recognised",
                                  dict(tc.facts_for(tree, state, None, {}, pattern), search_pattern=True, text=text),
                                  "search pattern %r renders %r for version %r, and its own recogniser does not accept that" % (
                                      raw, rt[0], text))
        generated = False
        wrote = False      # the files hold what a successful real update of this run wrote
        regions = tuple(sorted(set(s["slot"] if s["slot"].startswith("{") else "partial"
                                   for f in project["files"] for ln in f["lines"] for s in ln["segs"]
                                   if not isinstance(s, str))))
        regimes = tuple(sorted(set(f.get("regime", "lf") for f in project["files"])))
        for step, op in enumerate(case["ops"]):
            if op["op"] == "show":
                do_show(ctx, w, clock, text, state=state)
                continue
            delta = op.get("delta", 0)
            clock = tc.step_clock(ctx, clock, delta, two_digit)
            flags = dict(op.get("flags", {}))
            argv = ["update"] + gp.flags_to_argv(flags, op.get("spell", 0))
            today = clock
            use_date = op.get("date_flag") and not flags.get("pin_date")
            if use_date:
                argv += ["--date", clock.isoformat()]
                today = dt.date(1999, 1, 1) if (step % 2 == 0 and not project.get("clock_slots")) else clock
            if w.clock is not None:
                w.start_clock_fields = w.clock_fields()
                w.clock = clock
            if op.get("dry"):
                argv.append("--dry")
            if op.get("ignore_vcs_tag"):
                argv.append("--ignore-vcs-tag")
                ctx.probe("ignore_vcs_tag_with_set_version" if op.get("sv") else "ignore_vcs_tag")
            if op.get("verbose"):
                argv.insert(1, op["verbose"])
                ctx.probe("verbose_flag")
            target = None
            if op.get("sv"):
                target = tc.derive_target(op["sv"], tree, state, text)
                if target is not None:
                    argv += ["--set-version", target]
            exp = tc.expectation(ctx, tree, state, text, flags, clock, False)
            shim = fakevcs.VcsShim(w.repo) if w.repo is not None else None
            res = invoker.invoke(w.dir, argv, today, shim, fakevcs.HookShim({}), glob_perm)
            ctx.invocations += 1
            old_ann = res.log_value("Old Version: ")
            new_text = res.log_value("New Version: ") if res.exit_code == 0 else None
            ctx.event(argv, res.exit_code, old_ann, new_text, invoker.digest_snapshot(res.after))
            rel = "same" if delta == 0 else ("fwd" if delta > 0 else "back")
            abstract = (tuple(sorted(set(rp.parts_of(tree)))), tuple(sorted(flags)), op.get("sv"), rel,
                        bool(op.get("dry")), regions, regimes)
            ctx.state((abstract[0], state.get("tag"), project["syntax"]))
            ctx.transition(abstract[:5] + (res.exit_code,))
            base_facts = tc.facts_for(tree, state, exp[1], flags, pattern)
            base_facts["syntax"] = project["syntax"]
            base_facts["nondot_sep"] = not layouts.pep_friendly(pattern)
            base_facts["bld_zero"] = "bid" in state and int(state["bid"]) == 0
            if project.get("twin_pair") and res.exit_code != 0 and not res.changed and pep440.is_pep440(text) and \
                    any(rp.accepts(tree, cand) for cand in {pep440.canonical(text), w.pep_cache.get(text) or text,
                                                             pep440.canonical(text).replace(".dev", "dev").replace(".post", "post")}) \
                    and any("greedy" in m for _l, _n, m in res.logs):
                # the text in the {pep440_version} line is itself a version of the pattern, so the {version} pattern claims both
                # lines of the pair, the second pattern is shadowed and bumpver refuses to go on (by design; the statement makes
                # no claim for this state)
                ctx.count("twin_pair_refused")
                ctx.probe("twin_pair_refused")
                continue
            if project.get("invalid_utf8") and res.exit_code != 0 and not res.changed and "UnicodeDecodeError" in (res.exc or ""):
                # a configured file is not valid UTF-8: bumpver refuses to touch the project (by design; what must not happen is
                # an update that goes through and leaves that file behind - then the walker below speaks)
                ctx.count("undecodable_file_refused")
                ctx.probe("undecodable_file_refused")
                continue
            if op.get("dry") and res.changed:
                ctx.violation("C13", "dry_changed_files", base_facts, "`update --dry` changed files (argv %s)" % argv)
                ctx.violation("C01", "dry_changed_files", base_facts, "`update --dry` changed files (argv %s)" % argv)
                break
            if res.exit_code != 0 and res.changed:
                ctx.violation("C01", "failed_update_changed_files", base_facts,
                              "update exited %s but files changed (argv %s, %s)" % (
                                  res.exit_code, argv, res.exc or [m for _l, _n, m in res.logs][-2:]))
                break
            if res.exit_code == 0 and new_text is None:
                ctx.violation("C01", "exit0_without_version", base_facts, "exit 0 but no 'New Version:' log line")
                break
            if res.exit_code == 0 and old_ann != text:
                ctx.violation("C09", "old_version_mismatch", base_facts,
                              "update started from %r, the project's current version is %r" % (old_ann, text))
                break
            if target is not None:
                out = tc.judge_set_version(ctx, tree, pattern, state, text, op["sv"], target, res.exit_code, new_text,
                                           None, abstract, base_facts)
                if out is None:
                    break
                new_state, new_text2 = out
                gen2 = False if new_text2 != text else generated
            else:
                nvj = len(ctx.violations)
                out = tc.judge_bump(ctx, tree, pattern, state, text, flags, clock, delta, exp, res.exit_code, new_text,
                                    None, generated, abstract,
                                    fail_info="exit %s %s" % (res.exit_code, res.exc or [m for _l, _n, m in res.logs][-3:]))
                nomatch = [m for _l, _n, m in res.logs if m.startswith("No match for pattern")]
                if wrote and nomatch and any(v["kind"] == "must_succeed_but_failed" for v in ctx.violations[nvj:]):
                    # C02 for search patterns: the files hold exactly what bumpver's last update rendered, and the
                    # pattern that rendered it does not find it again
                    ctx.violation("C02", "written_text_not_recognised", dict(base_facts, written_by_update=True),
                                  "after a successful update wrote %r, the next update fails: %s" % (text, nomatch[:2]))
                if out is None:
                    break
                new_state, new_text2, gen2 = out
            if res.exit_code != 0:
                continue
            if op.get("dry"):
                ctx.probe("dry_ok")
                continue
            # a successful real update: every slot must show the new version, nothing else may change
            nv0 = len(ctx.violations)
            ok = w.walk(ctx, res.after, new_state, new_text2, state, text, base_facts)
            if legacy.is_legacy(pattern):
                for v in list(ctx.violations[nv0:]):
                    # C20: legacy slots (incl. the derived {pep440_version}) are rewritten and found again
                    ctx.violation("C20", "legacy_" + v["kind"], dict(v["facts"], legacy=True), v["detail"])
            ctx.nontriv(abstract + ("walked", ok))
            ctx.probe("real_update_ok")
            if not ok:
                break
            state, text, generated = new_state, new_text2, gen2
            wrote = True
            if self.grep_pep and pep440.is_pep440(text):
                # C15: what was written for {pep440_version} is accepted by the derived search pattern
                for f in project["files"]:
                    for raw in f["patterns"]:
                        if "{pep440_version}" not in raw:
                            continue
                        content = res.after.get(f["path"], b"").decode("utf-8", "replace")
                        found = adapter.search_pattern_finds(pattern, raw, content)
                        ctx.probe("pep440_slot_grepped")
                        if not found:
                            ctx.violation("C15", "pep440_slot_not_found_again", dict(base_facts, path=f["path"]),
                                          "search pattern %r no longer finds the {pep440_version} text written to %s for %r" % (
                                              raw, f["path"], text))


class Locale:
    """LOCALE leg of C04 (and the fidelity self-test of the in-process seam): the same single update is executed
    in-process and in a real child interpreter under an ASCII locale with UTF-8 mode off, on two copies of one world."""

    def __init__(self, focus, quick, thorough):
        self.name = "LOCALE/" + focus
        self._quick, self._thorough = quick, thorough

    def total(self, tier):
        return self._quick if tier == "quick" else self._thorough

    def deadline(self, tier):
        return 170 if tier == "quick" else 1500

    def gen(self, seed, index, tier):
        rng = runner.rng_for(seed, self.name, index)
        # file *names* stay ASCII here: a non-ASCII name cannot even be encoded by an ASCII-locale interpreter,
        # which is the operating system's doing and not in the statement (it speaks of text inside files)
        # (no clock-derived patterns either: a child process cannot share the simulated "today")
        project = layouts.gen_project(rng, mode="bytes", vcs="none", allow_odd_paths=False, clock_patterns=False)
        tree = rp.tokenize(project["version_pattern"])
        flags = gp.gen_flags(rng, tree)
        flags.pop("pin_date", None)
        return {"project": project, "ops": [{"op": "update", "flags": flags, "delta": gp.gen_clock_delta(rng)}],
                "locale": "ascii" if index % 4 else "utf8"}

    def run(self, case, ctx):
        project = case["project"]
        op = case["ops"][0]
        clock = dt.date.fromisoformat(project["epoch"])
        tree = rp.tokenize(project["version_pattern"])
        clock = tc.step_clock(ctx, clock, op.get("delta", 0), gp.has_two_digit_year(tree))
        argv = ["update"] + gp.flags_to_argv(op.get("flags", {})) + ["--date", clock.isoformat()]
        wa = simworld.World(project)
        wa.materialise()
        wb = simworld.World(project)
        wb.materialise()
        ra = invoker.invoke(wa.dir, argv, dt.date(1999, 1, 1))
        rb_ = invoker.invoke_child(wb.dir, argv, locale=case["locale"])
        ctx.invocations += 2
        ctx.event(argv, ra.exit_code, rb_.exit_code, invoker.digest_snapshot(ra.after), invoker.digest_snapshot(rb_.after))
        nonascii = any(any(ord(ch) > 127 for ch in (data or b"").decode("utf-8", "replace")) for data in ra.before.values())
        ctx.probe("child_locale_" + case["locale"])
        if nonascii:
            ctx.probe("non_ascii_content")
        ctx.nontriv((case["locale"], ra.exit_code, nonascii, tuple(sorted(set(f["regime"] for f in project["files"])))))
        ctx.sample = {"campaign": self.name, "argv": argv, "locale": case["locale"], "exit": [ra.exit_code, rb_.exit_code]}
        facts = {"locale": case["locale"], "pattern": project["version_pattern"]}
        if ra.exit_code != rb_.exit_code or ra.after != rb_.after:
            diff = [p for p in set(ra.after) | set(rb_.after) if ra.after.get(p) != rb_.after.get(p)]
            kind = "locale_divergence" if case["locale"] == "ascii" else "child_process_divergence"
            ctx.violation("C04", kind, facts,
                          "in-process (UTF-8) exit %s vs child (%s locale) exit %s; differing files %s; child stderr %s" % (
                              ra.exit_code, case["locale"], rb_.exit_code, diff[:4], rb_.stderr[-300:]))


class WriteFault:
    """C04 under a file-system fault: the same update runs fault-free on one copy of a world and, on a second copy, with the
    opening-for-write of one configured file failing (disk full / immutable file).  Whatever the run then does - stop, carry
    on, put files back - every configured file must hold either its old or its new content as a whole: no byte outside the
    matched spans may differ.  (Nothing is claimed about the exit code or about which files were reached.)"""

    def __init__(self, focus, quick, thorough):
        self.name = "WRITEFAULT/" + focus
        self._quick, self._thorough = quick, thorough

    def total(self, tier):
        return self._quick if tier == "quick" else self._thorough

    def deadline(self, tier):
        return 170 if tier == "quick" else 1500

    def gen(self, seed, index, tier):
        rng = runner.rng_for(seed, self.name, index)
        project = layouts.gen_project(rng, mode=rng.choice(["plain", "bytes"]), vcs="none", clock_patterns=False, allow_symlinks=False)
        tree = rp.tokenize(project["version_pattern"])
        flags = gp.gen_flags(rng, tree)
        flags.pop("pin_date", None)
        return {"project": project, "ops": [{"op": "update", "flags": flags, "delta": gp.gen_clock_delta(rng)}],
                "fault_pick": rng.randrange(1000), "errno": rng.choice([28, 13, 1, 122, 30])}

    def run(self, case, ctx):
        import errno as _errno
        project = case["project"]
        op = case["ops"][0]
        tree = rp.tokenize(project["version_pattern"])
        clock = tc.step_clock(ctx, dt.date.fromisoformat(project["epoch"]), op.get("delta", 0), gp.has_two_digit_year(tree))
        argv = ["update"] + gp.flags_to_argv(op.get("flags", {})) + ["--date", clock.isoformat()]
        state = dict(project["state"])
        text = rp.render(tree, state)
        wa = simworld.World(project)
        wa.materialise()
        ra = invoker.invoke(wa.dir, argv, clock)
        ctx.invocations += 1
        if ra.exit_code != 0:
            ctx.count("control_run_failed")
            return
        new_text = ra.log_value("New Version: ")
        st = rp.recognise(tree, new_text) if new_text else []
        if not st:
            ctx.count("control_version_not_recognised")
            return
        paths = sorted(wa.files)
        target = paths[case["fault_pick"] % len(paths)]
        wb = simworld.World(project)
        wb.materialise()
        rb_ = invoker.invoke(wb.dir, argv, clock, write_fault={"path": target, "errno": case["errno"]})
        ctx.invocations += 1
        fired = sum(e.get("fired", 0) for e in rb_.events if e.get("kind") == "io_fault")
        ctx.event(argv, target, case["errno"], rb_.exit_code, fired, invoker.digest_snapshot(rb_.after))
        if not fired:
            ctx.count("write_fault_not_reached")
            return
        ctx.fault("fs_open_for_write_" + _errno.errorcode.get(case["errno"], str(case["errno"])))
        ctx.nontriv((target == wb.syntax, case["errno"], rb_.exit_code, len(paths), tuple(sorted(set(f["regime"] for f in project["files"])))))
        ctx.sample = {"campaign": self.name, "argv": argv, "unwritable": target, "errno": case["errno"], "exit": rb_.exit_code}
        facts = {"pattern": project["version_pattern"], "errno": case["errno"], "write_fault": True}
        for path in paths:
            have = rb_.after.get(path)
            old = ra.before.get(path)
            new = ra.after.get(path)
            if have != old and have != new:
                ctx.violation("C04", "bytes_changed_under_write_fault", dict(facts, path=path, regime=wb._regime(path)),
                              "writing %r failed (injected errno %s); afterwards %r holds neither its old nor its new content: "
                              "%r (old %r)" % (target, case["errno"], path, (have or b"")[:120], (old or b"")[:120]))
                return
        for path, data in rb_.after.items():
            if path not in ra.after:
                ctx.violation("C04", "unconfigured_file_written", dict(facts, path=path), "file %r appeared after a failed write" % path)
                return
        ctx.probe("write_fault_survived")
