"""SWEEP: the simulated clock visits consecutive days; CHAIN: long chains of bumps.

SweepMonotone (C14): `bumpver test V0 P --date D` for consecutive days D; renderings never decrease.
SweepRoundTrip (C02): every day of the clock domain through the adapter: render -> full match -> read back -> re-render.
RejectIncoherent (C14): calendar-year/ISO-week pairings are refused by test, update and the config loader.
Chain (C17): BUILD ids along chains of bumps."""
import datetime as dt

import runner
from sim import invoker, adapter
from ref import pattern as rp, pep440, bump as rb
from campaigns import testcmd as tc

SUBS_Y = ["", ".MM", ".0M", ".MM.DD", ".MM.0D", ".0M.DD", ".0M.0D", ".JJJ", ".00J", ".Q", ".WW", ".0W", ".UU", ".0U"]
COHERENT = [y + s for y in ("YYYY", "YY", "0Y") for s in SUBS_Y] + \
           [g + s for g in ("GGGG", "GG", "0G") for s in ("", ".VV", ".0V")]
INCOHERENT = [y + s for y in ("YYYY", "YY", "0Y") for s in (".VV", ".0V")] + \
             [g + s for g in ("GGGG", "GG", "0G") for s in (".WW", ".0W", ".UU", ".0U")] + \
             ["YYYY.0V.GGGG", "YY.VV.GG", "0Y.0V.0G", "GGGG.WW.YYYY", "GG.0U.YY"]     # the other kind of year does not mend the pairing
FIRST = dt.date(2001, 1, 1)
LAST = dt.date(2099, 12, 31)


def week53(tree, state):
    names = set(rp.parts_of(tree))
    return bool(names & {"WW", "0W", "UU", "0U"}) and (state.get("week_w") == 53 or state.get("week_u") == 53)


class SweepMonotone:
    name = "SWEEP/C14"

    def units(self, tier, seed):
        """list of (pattern index, first day, last day)"""
        out = []
        for pi, _p in enumerate(COHERENT):
            if tier == "thorough":
                for year in range(2001, 2100):
                    start = FIRST if year == 2001 else dt.date(year - 1, 12, 31)
                    out.append((pi, start, dt.date(year, 12, 31)))
            else:
                for year in range(2002, 2100):
                    out.append((pi, dt.date(year - 1, 12, 21), dt.date(year, 1, 10)))
                rng = runner.rng_for(seed, self.name, pi)
                for _ in range(3):
                    year = rng.randint(2001, 2099)
                    out.append((pi, dt.date(year, 1, 1), dt.date(year, 12, 31)))
        return out

    def total(self, tier):
        return len(self.units(tier, 0))

    def deadline(self, tier):
        return 170 if tier == "quick" else 1700

    def gen(self, seed, index, tier):
        pi, a, b = self.units(tier, seed)[index]
        return {"pattern": COHERENT[pi], "first": a.isoformat(), "last": b.isoformat(), "ops": [{"op": "sweep"}]}

    def run(self, case, ctx):
        pattern = case["pattern"]
        tree = rp.tokenize(pattern)
        v0 = rp.render(tree, rp.state_for_date(tree, FIRST))
        a = dt.date.fromisoformat(case["first"])
        b = dt.date.fromisoformat(case["last"])
        d = invoker.new_dir("s")
        prev = None
        prev_day = None
        day = a
        ctx.sample = {"campaign": self.name, "pattern": pattern, "v0": v0, "first": case["first"], "last": case["last"]}
        while day <= b:
            st = rp.state_for_date(tree, day)
            ref_text = rp.render(tree, st)
            res = invoker.invoke(d, ["test", v0, pattern, "--date", day.isoformat()], dt.date(1999, 1, 1))
            ctx.invocations += 1
            ctx.sim_days += 1
            if res.exit_code == 0:
                cur = res.out_value("New Version: ")
            elif ref_text == v0:
                cur = v0  # still inside the calendar unit of the first day: "version did not change"
            else:
                cur = None
                if week53(tree, st):
                    ctx.count("steered_week53")
                else:
                    ctx.violation("C14", "coherent_pattern_rejected", {"pattern": pattern, "day": day.isoformat()},
                                  "`test %s %s --date %s` exited %s (%s)" % (
                                      v0, pattern, day, res.exit_code, [m for _l, _n, m in res.logs][-2:]))
            ctx.event(day.isoformat(), res.exit_code, cur)
            if cur is not None and cur != ref_text:
                ctx.violation("C05", "calendar_from_date", {"pattern": pattern, "day": day.isoformat()},
                              "date %s renders %r, the calendar arithmetic gives %r" % (day, cur, ref_text))
            if cur is not None and prev is not None:
                ctx.nontriv((pattern, day.isoformat()))
                if pep440.cmp(cur, prev) < 0:
                    ctx.violation("C14", "runs_backwards", {"pattern": pattern, "day": day.isoformat(),
                                                           "week53": week53(tree, st)},
                                  "pattern %r: %s -> %r but %s -> %r" % (pattern, prev_day, prev, day, cur))
                if cur != prev:
                    ctx.probe("rendering_changed")
                    ctx.transition((pattern, len(cur) - len(prev), cur[:1] != prev[:1]))
            if st.get("week_w") == 53 or st.get("week_u") == 53:
                ctx.probe("week53_day_hit")
            if cur is not None:
                prev, prev_day = cur, day
            day += dt.timedelta(days=1)
        ctx.state((pattern,))


class RejectIncoherent:
    name = "REJECT/C14"

    def total(self, tier):
        return len(INCOHERENT) * (4 if tier == "quick" else 40)

    def gen(self, seed, index, tier):
        rng = runner.rng_for(seed, self.name, index)
        pattern = INCOHERENT[index % len(INCOHERENT)]
        year = rng.randint(2001, 2098)
        day = rng.choice([dt.date(year, 12, 30), dt.date(year, 1, 2), dt.date(year, rng.randint(1, 12), rng.randint(1, 28))])
        suffix = rng.choice(["", ".PATCH", ".BUILD"])
        return {"pattern": pattern + suffix, "day": day.isoformat(), "ops": [{"op": "reject"}]}

    def run(self, case, ctx):
        pattern = case["pattern"]
        day = dt.date.fromisoformat(case["day"])
        tree = rp.tokenize(pattern)
        st = rp.state_for_date(tree, day, {"patch": 1, "bid": "1001"})
        text = rp.render(tree, st)
        d = invoker.new_dir("r")
        later = day + dt.timedelta(days=40)
        res = invoker.invoke(d, ["test", text, pattern, "--date", later.isoformat()] + (["--patch"] if "PATCH" in pattern else []),
                             later)
        ctx.invocations += 1
        ctx.event("test", res.exit_code)
        ctx.nontriv((pattern, "test"))
        if res.exit_code == 0:
            ctx.violation("C14", "incoherent_pattern_accepted", {"pattern": pattern, "by": "test"},
                          "`test %s %s` succeeded: %s" % (text, pattern, res.stdout.strip()))
        cfg = ('[bumpver]\ncurrent_version = "%s"\nversion_pattern = "%s"\n\n[bumpver.file_patterns]\n'
               '"bumpver.toml" = [\'current_version = "{version}"\']\n' % (text, pattern))
        invoker.write_tree(d, {"bumpver.toml": cfg.encode()})
        for argv in (["update", "--date", later.isoformat()], ["show"]):
            res = invoker.invoke(d, argv, later)
            ctx.invocations += 1
            ctx.event(argv[0], res.exit_code)
            ctx.nontriv((pattern, argv[0]))
            if res.exit_code == 0 or res.changed:
                ctx.violation("C14", "incoherent_pattern_accepted", {"pattern": pattern, "by": argv[0]},
                              "`%s` with version_pattern %r exited %s" % (argv[0], pattern, res.exit_code))
        # the guard is not over-strict: the renderer does run backwards for this pairing on some day pair
        shown = False
        try:
            base = adapter.parse(text, pattern)
            for year in (day.year, day.year + 1, 2020, 2021, 2024, 2027):
                prev = None
                for off in range(-6, 8):
                    dd = dt.date(year, 1, 1) + dt.timedelta(days=off)
                    t = adapter.fmt(adapter.vinfo_with_date(base, dd, pattern), pattern)
                    if prev is not None and pep440.cmp(t, prev) < 0:
                        shown = True
                    prev = t
                if shown:
                    break
        except Exception as ex:
            if isinstance(ex, invoker.HarnessError):
                raise
        ctx.probe("rejected_pairing_shown_nonmonotone" if shown else "rejected_pairing_not_shown")
        ctx.sample = {"campaign": self.name, "pattern": pattern, "text": text, "day": case["day"]}


RT_PATTERNS_4 = ["YYYY.MM.DD", "YYYY.0M.0D", "YYYY.JJJ", "YYYY.00J", "YYYYqQ", "YYYY.WW", "YYYY.0W", "YYYY.UU", "YYYY.0U",
                 "GGGG.VV", "GGGG.0V", "vYYYY0M.0D"]
RT_PATTERNS_2 = ["YY.MM.DD", "0Y.0M.0D", "0Y.00J", "YY.WW", "0Y0U", "GG.VV", "0G.0V"]


class SweepRoundTrip:
    name = "SWEEP/C02"

    def units(self, tier, seed):
        out = []
        for p in RT_PATTERNS_2:
            for year in range(2001, 2100, 3):
                out.append((p, year, min(year + 2, 2099)))
        rng = runner.rng_for(seed, self.name, 0)
        for p in RT_PATTERNS_4:
            if tier == "thorough":
                for year in range(1000, 10000, 10):
                    out.append((p, year, year + 9))
            else:
                for year in range(2001, 2100, 3):
                    out.append((p, year, min(year + 2, 2099)))
                for _ in range(6):
                    y = rng.randint(1000, 9990)
                    out.append((p, y, y + 1))
                out.append((p, 1000, 1001))
                out.append((p, 9998, 9999))
        return out

    def total(self, tier):
        return len(self.units(tier, 0))

    def deadline(self, tier):
        return 170 if tier == "quick" else 1700

    def gen(self, seed, index, tier):
        p, y0, y1 = self.units(tier, seed)[index]
        return {"pattern": p, "y0": y0, "y1": y1, "ops": [{"op": "sweep"}]}

    def run(self, case, ctx):
        pattern = case["pattern"]
        tree = rp.tokenize(pattern)
        fields = rp.fields_of(tree)
        v0 = rp.render(tree, rp.state_for_date(tree, dt.date(2001, 6, 15)))
        base = adapter.parse(v0, pattern)
        day = dt.date(case["y0"], 1, 1)
        end = dt.date(case["y1"], 12, 31)
        ctx.sample = {"campaign": self.name, "pattern": pattern, "years": [case["y0"], case["y1"]]}
        bad = 0
        while day <= end and bad < 5:
            ctx.sim_days += 1
            st = rp.state_for_date(tree, day)
            facts = {"pattern": pattern, "day": day.isoformat(), "week53": week53(tree, st)}
            try:
                t = adapter.fmt(adapter.vinfo_with_date(base, day, pattern), pattern)
                ref_t = rp.render(tree, st)
                if t != ref_t:
                    ctx.violation("C05", "calendar_from_date", facts, "%s renders %r, calendar arithmetic gives %r" % (day, t, ref_t))
                    bad += 1
                if not adapter.full_match(t, pattern):
                    ctx.violation("C02", "sweep_not_recognised", facts,
                                  "%r (rendered for %s) is not accepted in full by its own pattern %r" % (t, day, pattern))
                    bad += 1
                else:
                    back = adapter.parse(t, pattern)
                    d = back._asdict()
                    for f in fields:
                        if d.get(f) != st.get(f):
                            ctx.violation("C02", "sweep_readback_mismatch", dict(facts, field=f),
                                          "%r reads back with %s=%r, rendered from %r (%s)" % (t, f, d.get(f), st.get(f), day))
                            bad += 1
                            break
                    again = adapter.fmt(back, pattern)
                    if again != t:
                        ctx.violation("C02", "sweep_rerender_differs", facts, "%r re-renders as %r (%s)" % (t, again, day))
                        bad += 1
            except Exception as ex:
                if isinstance(ex, invoker.HarnessError):
                    raise
                ctx.violation("C02", "sweep_not_recognised", dict(facts, exc=type(ex).__name__),
                              "round trip for %s with %r raised %s: %s" % (day, pattern, type(ex).__name__, ex))
                bad += 1
            ctx.invocations += 1
            if st.get("week_w") == 53 or st.get("week_u") == 53:
                ctx.probe("week53_day_hit")
            if st.get("week_v") == 53:
                ctx.probe("iso_week53_day_hit")
            if st.get("doy") == 366:
                ctx.probe("leap_day366_hit")
            if day >= end:
                break
            day += dt.timedelta(days=1)
        ctx.event(pattern, case["y0"], case["y1"], len(ctx.violations))
        ctx.nontriv((pattern, case["y0"]))
        ctx.state((pattern,))


CHAIN_PATTERNS = ["vYYYY.BUILD[-TAG]", "YYYY.BLD", "MAJOR.BUILD", "YYYY0M.BUILD[-TAG]"]
EXPANSION_STARTS = ["997", "0997", "1997", "22997", "333997", "4444997", "9999990", "99990", "9990", "8999", "89999",
                    "0", "1", "9", "09", "0099", "00997", "19990", "29998", "0000997", "999", "99", "98"]


class Chain:
    name = "CHAIN/C17"

    def plan(self, tier):
        """(#short chains, steps of a short chain, #long chains, steps of a long chain)"""
        return (4000, 3, 46, 800) if tier == "quick" else (111110, 3, 92, 10000)

    def total(self, tier):
        short, _s, long_, _l = self.plan(tier)
        return short + long_

    def deadline(self, tier):
        return 170 if tier == "quick" else 1700

    def gen(self, seed, index, tier):
        short, ssteps, long_, lsteps = self.plan(tier)
        rng = runner.rng_for(seed, self.name, index)
        if index < short:
            if tier == "thorough":
                # all 1..5 digit strings, zero padded ones included
                n = index
                for width in range(1, 6):
                    if n < 10 ** width:
                        start = "%0*d" % (width, n)
                        break
                    n -= 10 ** width
            else:
                width = rng.randint(1, 7)
                start = "".join(rng.choice("0123456789") for _ in range(width))
                if rng.random() < 0.04:
                    # an id whose digits also occur in the parts to its left (the chains run in March 2020 with MAJOR = 1)
                    start = rng.choice(["2020", "202003", "1", "20", "020", "2", "0320", "2003"])
            steps = ssteps
        else:
            start = EXPANSION_STARTS[(index - short) % len(EXPANSION_STARTS)]
            steps = lsteps
        pattern = rng.choice(CHAIN_PATTERNS) if index < short else CHAIN_PATTERNS[(index - short) // len(EXPANSION_STARTS) % len(CHAIN_PATTERNS)]
        if "BLD" in pattern and int(start) == 0:
            start = "1"
        if "BLD" in pattern:
            start = str(int(start))
        return {"pattern": pattern, "start": start, "steps": steps, "advance": rng.random() < 0.3,
                "ops": [{"op": "chain"}]}

    def run(self, case, ctx):
        pattern = case["pattern"]
        tree = rp.tokenize(pattern)
        clock = dt.date(2020, 3, 1)
        st = rp.state_for_date(tree, clock, {"bid": case["start"], "tag": "final", "major": 1})
        st = {f: st.get(f) for f in rp.fields_of(tree)}
        if "tag" in st and st["tag"] is None:
            st["tag"] = "final"
        text = rp.render(tree, st)
        d = invoker.new_dir("c")
        build_part = "BUILD" in rp.parts_of(tree)
        generated = False
        ctx.sample = {"campaign": self.name, "pattern": pattern, "start": text, "steps": case["steps"]}
        lens = set()
        for step in range(case["steps"]):
            if case.get("advance") and step % 97 == 96:
                clock += dt.timedelta(days=200)
                ctx.sim_days += 200
            ob = st["bid"]
            res = invoker.invoke(d, ["test", text, pattern], clock)
            ctx.invocations += 1
            new = res.out_value("New Version: ") if res.exit_code == 0 else None
            if step < 5 or new is None:
                ctx.event(step, res.exit_code, new)
            if ob.count("9") == len(ob) and int(ob) >= 1000:
                ctx.probe("maximum_id_reached")
                ctx.nontriv((pattern, "max", len(ob)))
                if res.exit_code == 0:
                    ctx.violation("C17", "wrapped_at_maximum", {"pattern": pattern, "old": ob},
                                  "BUILD %r is the documented maximum but a bump announced %r" % (ob, new))
                if res.changed:
                    ctx.violation("C17", "wrapped_at_maximum", {"pattern": pattern, "old": ob}, "files changed")
                break
            if res.exit_code != 0:
                ctx.violation("C17", "chain_broken", {"pattern": pattern, "old": ob},
                              "`test %s %s` exited %s (%s)" % (text, pattern, res.exit_code,
                                                               res.exc or [m for _l, _n, m in res.logs][-2:]))
                break
            states = rp.recognise(tree, new)
            if not states:
                ctx.violation("C01", "announced_not_accepted", {"pattern": pattern, "old": text, "new": new},
                              "announced %r not accepted by %r" % (new, pattern))
                break
            nst = states[0]
            nb = nst["bid"]
            facts = {"pattern": pattern, "old": ob, "new": nb}
            if not int(nb) > int(ob):
                ctx.violation("C17", "build_not_greater_int", facts, "BUILD %r -> %r does not grow numerically" % (ob, nb))
                break
            # (BLD drops leading zeros, so a user-chosen short start says nothing; from the first generated value on the
            # plain-string order must hold for BLD just as for BUILD)
            if ((build_part and (generated or len(ob) >= 4)) or (not build_part and generated)) and not nb > ob:
                ctx.violation("C17", "build_not_greater_str", facts, "BUILD %r -> %r does not grow lexically" % (ob, nb))
                break
            if build_part and int(ob) >= 1000 and len(nb) < len(ob):
                ctx.violation("C17", "build_lost_digits", facts, "BUILD %r -> %r lost digits" % (ob, nb))
                break
            if build_part and int(ob) >= 1000 and nb != rb.lexid_next(ob):
                ctx.violation("C17", "build_not_successor", facts, "BUILD %r -> %r, the scheme's successor is %r" % (
                    ob, nb, rb.lexid_next(ob)))
                break
            if pep440.cmp(new, text) <= 0:
                ctx.violation("C01", "not_strictly_greater", {"pattern": pattern, "old": text, "new": new},
                              "%r is not greater than %r" % (new, text))
                break
            if len(nb) > len(ob):
                ctx.probe("build_digit_expansion")
                ctx.nontriv((pattern, "expansion", len(ob), len(nb)))
            lens.add(len(nb))
            if step < 3:
                ctx.nontriv((pattern, case["start"], step))
            st, text, generated = nst, new, True
        ctx.state((pattern, tuple(sorted(lens))))


class FutureBump:
    """C14 bump leg, targeted: the current version lies in the future of the bump date (same year, later unit; other
    years; week-0 and New-Year days on either side).  A bump that succeeds must not move any calendar part backwards."""
    name = "FUTURE/C14"

    def total(self, tier):
        return 6000 if tier == "quick" else 200000

    def deadline(self, tier):
        return 170 if tier == "quick" else 1500

    def gen(self, seed, index, tier):
        rng = runner.rng_for(seed, self.name, index)
        core = COHERENT[index % len(COHERENT)]
        # (the last two: date-stamped builds of a SemVer project - all three SemVer parts *and* calendar parts)
        shape = rng.choice(["MAJOR.%s", "%s.PATCH", "v%s.INC0", "%s.BUILD", "MAJOR.%s.INC1", "MAJOR.MINOR.PATCH.%s",
                            "MAJOR.MINOR.PATCH-%s"])
        pattern = shape % core
        year = rng.randint(2001, 2097)
        r = rng.random()
        if r < 0.4:
            new = dt.date(year, 1, rng.randint(1, 7))
        elif r < 0.55:
            new = dt.date(year, 12, rng.randint(25, 31))
        else:
            new = dt.date(year, rng.randint(1, 12), rng.randint(1, 28))
        r = rng.random()
        if r < 0.6:
            old = new + dt.timedelta(days=rng.randint(1, 360))
        elif r < 0.8:
            old = new + dt.timedelta(days=rng.randint(1, 14))
        else:
            old = new + dt.timedelta(days=rng.randint(300, 800))
        if old.year > 2098:
            old = dt.date(2098, 12, 28)
        flags = {}
        if "MINOR" in pattern:
            flags[rng.choice(["major", "minor", "patch"])] = True
        elif "MAJOR" in pattern:
            flags["major"] = True
        elif "PATCH" in pattern:
            flags["patch"] = True
        if rng.random() < 0.1:
            flags["pin_increments"] = True if "INC" in pattern and ("major" in flags) else flags.get("pin_increments", False)
        return {"pattern": pattern, "old": old.isoformat(), "new": new.isoformat(), "flags": {k: v for k, v in flags.items() if v},
                "ops": [{"op": "future-bump"}]}

    def run(self, case, ctx):
        pattern = case["pattern"]
        tree = rp.tokenize(pattern)
        fields = rp.fields_of(tree)
        old = dt.date.fromisoformat(case["old"])
        new = dt.date.fromisoformat(case["new"])
        st = rp.state_for_date(tree, old, {"major": 3, "minor": 1, "patch": 4, "inc0": 2, "inc1": 5, "bid": "1041"})
        st = {f: st.get(f) for f in fields}
        text = rp.render(tree, st)
        from gen import patterns as gpat
        argv = ["test", text, pattern, "--date", new.isoformat()] + gpat.flags_to_argv(case["flags"])
        d = invoker.new_dir("f")
        res = invoker.invoke(d, argv, dt.date(1999, 1, 1))
        ctx.invocations += 1
        out = res.out_value("New Version: ") if res.exit_code == 0 else None
        ctx.event(argv, res.exit_code, out)
        ctx.sim_days += abs((old - new).days)
        ctx.back_jumps += 1
        week0 = rp.cal_fields(new)["week_w"] == 0 or rp.cal_fields(new)["week_u"] == 0
        if week0:
            ctx.probe("bump_date_in_week0")
        facts = {"pattern": pattern, "week53": week53(tree, st), "bump_date_week0": week0}
        ctx.sample = {"campaign": self.name, "argv": argv, "exit": res.exit_code, "out": out}
        ctx.state((pattern.replace(COHERENT[0], ""), week0))
        if facts["week53"]:
            ctx.count("steered_week53")
            return
        if out is None:
            exp = tc.expectation(ctx, tree, st, text, case["flags"], new, False)
            if exp[0] == "ok" and exp[2] and rp.accepts(tree, exp[2]) and pep440.cmp(exp[2], text) > 0:
                # the documented future guard keeps the calendar: the bump is legal, refusing it is C05's subject
                ctx.violation("C05", "must_succeed_but_failed", dict(facts, expected=exp[2]),
                              "rules give %r for %s but bumpver failed: %s" % (exp[2], argv, [m for _l, _n, m in res.logs][-2:]))
            return
        ctx.nontriv((pattern, case["old"], case["new"]))
        got = rp.recognise(tree, out)
        if not got:
            ctx.violation("C01", "announced_not_accepted", facts, "announced %r not accepted by %r" % (out, pattern))
            return
        if rb.cal_tuple(got[0], fields) < rb.cal_tuple(st, fields):
            ctx.violation("C14", "calendar_backwards", facts,
                          "bump on %s moved the calendar parts of %r backwards: %r (pattern %r)" % (new, text, out, pattern))
        ctx.probe("future_version_bumped")


LEGACY_CAL = ["{pycalver}", "{year}.{doy}{build}{release}", "{year}.{month}.{dom}{build}", "{yy}.{month_short}.{dom}.{MINOR}",
              "v{year}q{quarter}.{BID}", "{year}{month}{build}{release}"]


class LegacySweep:
    """C20: every date 2000..2099 for the legacy calendar composites through `bumpver test`."""
    name = "LEGACYSWEEP/C20"

    def units(self, tier, seed):
        out = []
        for pi, _p in enumerate(LEGACY_CAL):
            if tier == "thorough":
                for year in range(2000, 2100):
                    out.append((pi, dt.date(year, 1, 1), dt.date(year, 12, 31)))
            else:
                for year in (2000, 2004, 2096, 2099):
                    out.append((pi, dt.date(year, 1, 1), dt.date(year, 12, 31)))
                rng = runner.rng_for(seed, self.name, pi)
                for _ in range(2):
                    y = rng.randint(2001, 2098)
                    out.append((pi, dt.date(y, 1, 1), dt.date(y, 12, 31)))
                for year in range(2001, 2099, 7):
                    out.append((pi, dt.date(year, 12, 25), dt.date(year + 1, 1, 7)))
        return out

    def total(self, tier):
        return len(self.units(tier, 0))

    def deadline(self, tier):
        return 170 if tier == "quick" else 1700

    def gen(self, seed, index, tier):
        pi, a, b = self.units(tier, seed)[index]
        return {"pattern": LEGACY_CAL[pi], "first": a.isoformat(), "last": b.isoformat(), "ops": [{"op": "sweep"}]}

    def run(self, case, ctx):
        from ref import legacy as rl
        pattern = case["pattern"]
        tree = rl.tokenize(pattern)
        fields = rp.fields_of(tree)
        a = dt.date.fromisoformat(case["first"])
        b = dt.date.fromisoformat(case["last"])
        base = rp.state_for_date(tree, dt.date(1999, 12, 30) if "L.yy" not in rp.parts_of(tree) else dt.date(2000, 1, 1),
                                 {"bid": "1001", "tag": "final", "minor": 3, "major": 1, "patch": 0})
        base = {f: base.get(f) for f in fields}
        if "tag" in base and base["tag"] is None:
            base["tag"] = "final"
        v0 = rp.render(tree, base)
        d = invoker.new_dir("l")
        day = a
        ctx.sample = {"campaign": self.name, "pattern": pattern, "v0": v0, "first": case["first"], "last": case["last"]}
        bad = 0
        while day <= b and bad < 4:
            res = invoker.invoke(d, ["test", v0, pattern, "--date", day.isoformat(), "--minor"] if "minor" in fields else
                                 ["test", v0, pattern, "--date", day.isoformat()], dt.date(1999, 1, 1))
            ctx.invocations += 1
            ctx.sim_days += 1
            out = res.out_value("New Version: ") if res.exit_code == 0 else None
            ctx.event(day.isoformat(), res.exit_code, out)
            facts = {"pattern": pattern, "day": day.isoformat(), "legacy": True}
            want_cal = rp.cal_fields(day)
            if out is None:
                if day > dt.date(2000, 1, 1):
                    ctx.violation("C20", "legacy_date_not_bumpable", facts, "`test %s %s --date %s` exit %s (%s)" % (
                        v0, pattern, day, res.exit_code, res.exc or [m for _l, _n, m in res.logs][-2:]))
                    bad += 1
            else:
                st = rp.recognise(tree, out)
                if not st:
                    ctx.violation("C20", "announced_not_accepted", facts, "announced %r is not accepted by %r (%s)" % (out, pattern, day))
                    bad += 1
                else:
                    for f in fields:
                        if f in want_cal and st[0].get(f) != want_cal[f]:
                            ctx.violation("C20", "legacy_calendar_part_wrong", dict(facts, field=f),
                                          "%s: %r shows %s=%r, the date has %r" % (day, out, f, st[0].get(f), want_cal[f]))
                            bad += 1
                            break
                    try:
                        back = adapter.parse(out, pattern)
                        if adapter.fmt(back, pattern) != out:
                            ctx.violation("C20", "rerender_differs", facts, "%r re-renders as %r" % (out, adapter.fmt(back, pattern)))
                            bad += 1
                    except Exception as ex:
                        if isinstance(ex, invoker.HarnessError):
                            raise
                        ctx.violation("C20", "render_not_recognised", dict(facts, exc=type(ex).__name__),
                                      "%r (for %s) cannot be read back with %r: %s" % (out, day, pattern, ex))
                        bad += 1
                    if pep440.cmp(out, v0) <= 0:
                        ctx.violation("C20", "not_strictly_greater", facts, "%r is not greater than %r" % (out, v0))
                        bad += 1
            if want_cal["doy"] == 366:
                ctx.probe("legacy_day366_hit")
            day += dt.timedelta(days=1)
        ctx.nontriv((pattern, case["first"]))
        ctx.state((pattern,))


class ReleaseJobs:
    """C17 through `update`: a chain of release jobs, each starting from the same pristine checkout, running
    `update --no-commit` (or a committing update) and recording the release only as a VCS tag.  The BUILD numbers of the
    releases must keep growing."""
    name = "RELEASEJOBS/C17"

    def total(self, tier):
        return 300 if tier == "quick" else 20000

    def deadline(self, tier):
        return 170 if tier == "quick" else 1500

    def gen(self, seed, index, tier):
        rng = runner.rng_for(seed, self.name, index)
        return {"pattern": rng.choice(["vYYYY.BUILD[-TAG]", "YYYY.BUILD", "MAJOR.MINOR.BUILD", "YYYY0M.BUILD[-TAG]"]),
                "start": rng.choice(["1001", "1008", "1998", "0999", "22998", "0007"]), "jobs": rng.randint(3, 7),
                "commit_cfg": rng.random() < 0.5, "flag": rng.choice(["--no-commit", "--no-commit", None]),
                "scope": rng.choice([None, "global", "default"]), "ops": [{"op": "jobs"}],
                # days between jobs; a job may run with an earlier date than the release before it (a release made with
                # `--date <future>`, a build machine whose clock is behind): the newest tag is then "from the future"
                "deltas": [rng.choice([3, 3, 3, 40, 400, -20, -45, -400]) for _ in range(7)],
                # every job runs in a fresh clone: the earlier releases are tags on the remote that arrive with the fetch;
                # the clone's branch may have no upstream (detached HEAD of a CI checkout)
                "clone": rng.random() < 0.4, "no_upstream": rng.random() < 0.5,
                # other tools tag too: CI / deploy / nightly tags, created after each release
                "ci_tags": rng.choice([0, 0, 0, 40, 130])}

    def run(self, case, ctx):
        import os
        from sim import fakevcs
        pattern = case["pattern"]
        tree = rp.tokenize(pattern)
        clock = dt.date(2024, 2, 1)
        st = rp.state_for_date(tree, clock, {"bid": case["start"], "tag": "final", "major": 1, "minor": 0})
        st = {f: st.get(f) for f in rp.fields_of(tree)}
        if "tag" in st and st["tag"] is None:
            st["tag"] = "final"
        text = rp.render(tree, st)
        d = invoker.new_dir("rj")
        scope_line = 'tag_scope = "%s"\n' % case["scope"] if case["scope"] else ""
        cfg = ('[bumpver]\ncurrent_version = "%s"\nversion_pattern = "%s"\n%scommit = %s\ntag = false\npush = false\n\n'
               '[bumpver.file_patterns]\n"bumpver.toml" = [\'current_version = "{version}"\']\n"a.txt" = ["ver {version} end"]\n'
               % (text, pattern, scope_line, "true" if case["commit_cfg"] else "false"))
        pristine = {"bumpver.toml": cfg.encode(), "a.txt": ("ver %s end\n" % text).encode()}
        invoker.write_tree(d, pristine)
        os.mkdir(os.path.join(d, ".git"))
        clone = bool(case.get("clone"))
        repo = fakevcs.FakeRepo("git", remote=clone, tracking=not case.get("no_upstream"))
        repo.baseline(d)
        argv = ["update"] + ([] if clone else ["--no-fetch"]) + ([case["flag"]] if case["flag"] else [])
        if clone:
            ctx.probe("release_jobs_in_fresh_clones")
        committing = case["commit_cfg"] and case["flag"] != "--no-commit"
        prev = st["bid"]
        remote_tags = []
        ctx.sample = {"campaign": self.name, "pattern": pattern, "start": text, "argv": argv, "jobs": case["jobs"]}
        for job in range(case["jobs"]):
            res = invoker.invoke(d, argv, clock, fakevcs.VcsShim(repo), fakevcs.HookShim({}))
            ctx.invocations += 1
            new = res.log_value("New Version: ") if res.exit_code == 0 else None
            ctx.event(job, res.exit_code, new)
            if new is None:
                ctx.violation("C17", "chain_broken", {"pattern": pattern}, "release job %d: `%s` exit %s (%s)" % (
                    job, " ".join(argv), res.exit_code, res.exc or [m for _l, _n, m in res.logs][-2:]))
                break
            got = rp.recognise(tree, new)
            if not got:
                ctx.violation("C01", "announced_not_accepted", {"pattern": pattern}, "announced %r" % new)
                break
            nb = got[0]["bid"]
            ctx.nontriv((pattern, case["start"], job, committing, case["scope"]))
            if not int(nb) > int(prev):
                ctx.violation("C17", "build_not_greater_int", {"pattern": pattern, "old": prev, "new": nb, "via": "release_jobs"},
                              "release job %d produced BUILD %r after %r although tag %r exists (argv %s)" % (
                                  job, nb, prev, sorted(repo.tags)[-1:] or None, argv))
                break
            prev = nb
            # the job records the release as a tag and throws its checkout away
            if clone:
                # ... the tag lives on the remote; the next job's clone receives it when it fetches
                remote_tags.append(new)
                repo.tags = {}
                repo.pending_remote_tags = [(t, repo.head_commit()) for t in remote_tags]
            elif new not in repo.tags:
                repo.tags[new] = repo.head_commit()
            if not committing:
                invoker.write_tree(d, pristine)
            for i in range(case.get("ci_tags", 0)):
                name = "ci-%d-%03d" % (job, i)
                if clone:
                    remote_tags.append(name)
                else:
                    repo.tags[name] = repo.head_commit()
            if clone and case.get("ci_tags"):
                repo.pending_remote_tags = [(t, repo.head_commit()) for t in remote_tags]
            if case.get("ci_tags"):
                ctx.probe("many_other_tags")
            delta = case.get("deltas", [3] * 7)[job % 7]
            clock += dt.timedelta(days=delta)
            if delta < 0:
                ctx.probe("release_job_after_clock_went_back")
            ctx.probe("release_job_done")
