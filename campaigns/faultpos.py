"""FAULTPOS (C06): every single fault position of a generated project, in several file orders,
as `update` and as `update --dry` followed by `update` on a fork."""
import os
import itertools
import datetime as dt

import runner
from sim import invoker, fakevcs, world as simworld
from ref import pattern as rp, legacy, pep440
from gen import patterns as gp, layouts
from campaigns import testcmd as tc


def enumerate_faults(project):
    faults = []
    for f in project["files"]:
        for pi, _raw in enumerate(f["patterns"]):
            faults.append({"kind": "break", "path": f["path"], "pat": pi})
        if not f.get("glob_group"):
            # (a file that is only reached through a recursive glob may disappear without making the entry invalid)
            faults.append({"kind": "remove", "path": f["path"]})
    for f in project["files"]:
        if len(f["patterns"]) >= 2 and not f.get("bare") and not f.get("glob_group"):
            # double fault: one pattern has no match at all while another configured pattern only matches inside the
            # matches of an earlier one (a bare {version} pattern added to the file's entry)
            faults.append({"kind": "break+cover", "path": f["path"], "pat": len(f["patterns"]) - 1})
    for f in project["files"]:
        if f.get("bare") or f.get("glob_group"):
            continue
        for raw in f["patterns"]:
            tail = cover_tail(raw)
            if tail is not None:
                # single fault: a further pattern that only ever matches inside the matches of an earlier pattern (the same
                # text without its marker); bumpver refuses such a configuration ("possible greedy pattern") - wherever and
                # whenever it notices, nothing may have been written
                faults.append({"kind": "cover", "path": f["path"], "tail": tail})
                break
    if project.get("pep_ok") and not legacy.is_legacy(project["version_pattern"]):
        for f in project["files"]:
            if f.get("bare") or f.get("glob_group"):
                continue
            for raw in f["patterns"]:
                tail = cover_tail(raw)
                if tail is not None and "{version}" in tail:
                    # the greedy entry comes *first* and spells the version the other way (`version = {pep440_version}` in front
                    # of `current_version = {version}`): where the two overlap the later pattern finds nothing of its own
                    faults.append({"kind": "cover_first", "path": f["path"], "tail": tail.replace("{version}", "{pep440_version}")})
                    break
    if project.get("alias_pair"):
        # one real file configured under two names (a symbolic link and its target, same patterns): whichever entry comes
        # later in the config additionally names a pattern that occurs nowhere
        faults.append({"kind": "alias_extra"})
    for i, f in enumerate(project["files"]):
        if not f.get("symlink_to"):
            # the file is there but cannot be opened for reading (permissions, a stale mount): like a missing file, the rewrite
            # phase cannot complete
            faults.append({"kind": "unreadable", "path": f["path"], "errno": [13, 5, 116][i % 3]})
    if any(k == project["syntax"] for k, _v in project["cfg"]["file_patterns"]) and project["files"]:
        # the fault sits in the config file's own entry (a further pattern that occurs nowhere) while all other files are fine
        faults.append({"kind": "cfg_break"})
    for sv in ("lower", "equal", "junk", "trailing"):
        faults.append({"kind": "reject", "sv": sv})
    faults.append({"kind": "nochange"})
    return faults


def cover_tail(raw):
    import re
    m = re.match(r"@k\d+(.*)$", raw)
    if not m:
        return None
    tail = m.group(1).lstrip(" ")
    regions = [r for r in ("{version}", "{pep440_version}") if r in tail]
    if len(regions) != 1 or tail.count(regions[0]) != 1 or tail == regions[0] or not tail.split(regions[0])[0].strip():
        return None
    if tail[0] in "#;[" or tail != tail.strip():
        return None
    return tail


def apply_fault(w, project, fault):
    """Mutate the materialised directory.  -> extra argv, or None when the fault is not applicable."""
    if fault["kind"] == "remove":
        os.unlink(os.path.join(w.dir, fault["path"]))
        return []
    if fault["kind"] in ("break", "break+cover"):
        # every occurrence of this pattern loses its marker, so the pattern matches nowhere in the file
        for f in project["files"]:
            if f["path"] != fault["path"]:
                continue
            raw = f["patterns"][fault["pat"]]
            full = os.path.join(w.dir, f["path"])
            with open(full, "rb") as fobj:
                data = fobj.read().decode("utf-8", "surrogateescape")
            if "@k" in raw[:3]:
                raw_m = raw[raw.index("@k"):]
                marker = raw_m.split(" ")[0].split(":")[0].split("=")[0]
                data2 = data.replace(marker + ":", "#" + marker[1:] + ":").replace(marker + " ", "#" + marker[1:] + " ")
            else:
                # bare {version} pattern: destroy every digit so that no version text remains
                data2 = "".join("x" if ch.isdigit() else ch for ch in data)
            if data2 == data:
                return None
            with open(full, "wb") as fobj:
                fobj.write(data2.encode("utf-8", "surrogateescape"))
        return []
    return []


class FaultPos:
    def __init__(self, focus, quick, thorough, only=None):
        self.name = "FAULTPOS/" + focus
        self._quick, self._thorough = quick, thorough
        self.only = only          # restrict the enumeration to these fault kinds

    def total(self, tier):
        return self._quick if tier == "quick" else self._thorough

    def deadline(self, tier):
        return 170 if tier == "quick" else 1500

    def gen(self, seed, index, tier):
        rng = runner.rng_for(seed, self.name, index)
        project = layouts.gen_project(rng, mode=rng.choice(["plain", "plain", "bytes"]), allow_mixed=True, vcs=rng.choice(["none", "fake"]),
                                      legacy=rng.random() < 0.25, allow_odd_paths=False, allow_glob=True, max_files=4)
        # 1..3 patterns per file (statement), keep the first three
        for f in project["files"]:
            if len(f["patterns"]) > 3 and not f.get("globbed") and not f.get("repeated_entry"):
                drop = set(range(3, len(f["patterns"])))
                f["patterns"] = f["patterns"][:3]
                f["lines"] = [ln for ln in f["lines"]
                              if not any((not isinstance(s, str)) and s.get("pat") in drop for s in ln["segs"])]
                for key_pats in project["cfg"]["file_patterns"]:
                    if key_pats[0] == f["path"]:
                        key_pats[1] = f["patterns"]
        plain = [f for f in project["files"] if not f.get("bare") and not f.get("glob_group") and not f.get("globbed")
                 and not f.get("repeated_entry") and not f.get("respelled") and not f.get("symlink_to")]
        if project["vcs"] is None and plain and rng.random() < 0.25 and all(ch not in plain[0]["path"] for ch in " '"):
            f = plain[0]
            alias = "alias/" + f["path"].replace("/", "_")
            project["files"].append({"path": alias, "patterns": list(f["patterns"]), "lines": f["lines"], "regime": f["regime"],
                                     "shared_lines": 0, "symlink_to": f["path"]})
            project["cfg"]["file_patterns"].append([alias, list(f["patterns"])])
            project["alias_pair"] = [f["path"], alias]
        tree = legacy.tokenize_any(project["version_pattern"])
        flags = gp.gen_flags(rng, tree)
        flags.pop("pin_date", None)
        return {"project": project, "flags": flags, "days": rng.choice([0, 1, 40, 400]), "faults": "all",
                "verbose": rng.choice([None, None, None, "-v", "-vv", "-vv"]),     # log levels must not change any outcome
                "order_seed": rng.randrange(1 << 30), "ops": [{"op": "faults"}]}

    def shrink(self, case):
        if case.get("faults") == "all":
            for fault in enumerate_faults(case["project"]):
                for order in range(6):
                    for mode in ("update", "dry+update"):
                        cand = dict(case)
                        cand["faults"] = [{"fault": fault, "order": order, "mode": mode}]
                        yield cand

    def run(self, case, ctx):
        project = case["project"]
        base = simworld.World(project)
        tree = base.vtree
        pattern = base.vpattern
        state = dict(project["state"])
        text = rp.render(tree, state)
        clock = tc.step_clock(ctx, dt.date.fromisoformat(project["epoch"]), case.get("days", 0), gp.has_two_digit_year(tree))
        args = gp.flags_to_argv(case.get("flags", {})) + ["--date", clock.isoformat()]
        if case.get("verbose"):
            args.append(case["verbose"])
            ctx.probe("faults_under_" + case["verbose"].strip("-"))
        # the orders in which the config lists the files
        entries = list(project["cfg"]["file_patterns"])
        perms = list(itertools.permutations(range(len(entries)))) if len(entries) <= 4 else None
        orng = __import__("random").Random(case.get("order_seed", 0))
        if perms is None:
            perms = [tuple(orng.sample(range(len(entries)), len(entries))) for _ in range(24)]
        orng.shuffle(perms)
        perms = [tuple(range(len(entries)))] + [p for p in perms if p != tuple(range(len(entries)))]
        perms = perms[:6]

        def world_for(order_idx, cover_path=None, cover_pattern="{version}", alias_extra=False, cfg_break=False, cover_first=False):
            perm = perms[order_idx % len(perms)]
            p2 = dict(project)
            cfg = dict(project["cfg"])
            cfg["file_patterns"] = [entries[i] for i in perm]
            if alias_extra:
                pair = project["alias_pair"]
                later = [k for k, _v in cfg["file_patterns"] if k in pair][-1]
                cfg["file_patterns"] = [[k, (list(v) + ["@zz never {version}"]) if k == later else v] for k, v in cfg["file_patterns"]]
            if cfg_break:
                cfg["file_patterns"] = [[k, (list(v) + ["@zz never {version}"]) if k == project["syntax"] else v]
                                        for k, v in cfg["file_patterns"]]
            if cover_path is not None:
                import fnmatch
                hit = [k for k, v in cfg["file_patterns"] if k == cover_path or fnmatch.fnmatch(cover_path, k)]
                # (a file whose patterns are split over two entries gets the extra pattern in the last one only)
                if cover_first:
                    cfg["file_patterns"] = [[k, ([cover_pattern] + list(v)) if (hit and k == hit[0]) else v]
                                            for k, v in cfg["file_patterns"]]
                else:
                    cfg["file_patterns"] = [[k, (list(v) + [cover_pattern]) if (hit and k == hit[-1]) else v]
                                            for k, v in cfg["file_patterns"]]
            p2["cfg"] = cfg
            w = simworld.World(p2)
            w.materialise(state, text)
            return w

        # control: the fault-free update must succeed, otherwise faults on top of it prove nothing
        w0 = world_for(0)
        r0 = invoker.invoke(w0.dir, ["update"] + args, clock, fakevcs.VcsShim(w0.repo) if w0.repo else None,
                            fakevcs.HookShim({}))
        ctx.invocations += 1
        ctx.event("control", args, r0.exit_code)
        ctx.sample = {"campaign": self.name, "pattern": pattern, "args": args, "files": {f["path"]: f["patterns"] for f in project["files"]},
                      "orders": len(perms), "vcs": project["vcs"] is not None}
        if r0.exit_code != 0:
            ctx.count("control_run_failed")
            return
        if case["faults"] == "all":
            plans = [{"fault": fault, "order": o, "mode": m} for fault in enumerate_faults(project)
                     if (self.only is None or fault["kind"] in self.only)
                     for o in range(len(perms)) for m in ("update", "dry+update")]
        else:
            plans = case["faults"]
        for plan in plans:
            fault = plan["fault"]
            if fault["kind"] == "alias_extra":
                w = world_for(plan["order"], alias_extra=True)
            elif fault["kind"] == "cfg_break":
                w = world_for(plan["order"], cfg_break=True)
            elif fault["kind"] == "cover":
                w = world_for(plan["order"], fault["path"], fault["tail"])
            elif fault["kind"] == "cover_first":
                w = world_for(plan["order"], fault["path"], fault["tail"], cover_first=True)
            else:
                w = world_for(plan["order"], fault["path"] if fault["kind"] == "break+cover" else None)
            extra = apply_fault(w, project, fault)
            if extra is None:
                ctx.count("fault_not_applicable")
                continue
            if w.repo is not None:
                w.repo.baseline(w.dir)   # the faulty state is what is committed: the tree is clean, only the rewrite can fail
            argv = list(args)
            if fault["kind"] == "reject":
                target = tc.derive_target(fault["sv"], tree, state, text)
                if target is None or (rp.accepts(tree, target) and pep440.cmp(target, text) > 0):
                    # by the reference this target is a legal greater version: not a "rejected version" fault
                    ctx.count("fault_not_applicable")
                    continue
                argv += ["--set-version", target]
            if fault["kind"] == "nochange":
                # a bump that cannot change the version: pinned date/increments and no part flag
                argv = ["--pin-date", "--pin-increments"]
                if "bid" in rp.fields_of(tree) or legacy.is_legacy(pattern):
                    ctx.count("fault_not_applicable")
                    continue
            facts = {"pattern": pattern, "fault": fault["kind"], "mode": plan["mode"], "legacy": legacy.is_legacy(pattern),
                     "vcs": project["vcs"] is not None}
            dry_failed = None
            io_fault = {"path": fault["path"], "errno": fault["errno"], "mode": "read"} if fault["kind"] == "unreadable" else None
            if plan["mode"] == "dry+update":
                shim = fakevcs.VcsShim(w.repo) if w.repo else None
                rd = invoker.invoke(w.dir, ["update", "--dry"] + argv, clock, shim, fakevcs.HookShim({}), write_fault=io_fault)
                ctx.invocations += 1
                dry_failed = rd.exit_code != 0
                if rd.changed:
                    ctx.violation("C13", "dry_changed_files", facts, "`update --dry` changed files under fault %s" % fault)
                if rd.exit_code == 0 and fault["kind"] not in ("cover", "cover_first"):
                    ctx.violation("C06", "dry_missed_fault", facts,
                                  "`update --dry %s` exited 0 although %s" % (argv, fault))
            shim = fakevcs.VcsShim(w.repo) if w.repo else None
            res = invoker.invoke(w.dir, ["update"] + argv, clock, shim, fakevcs.HookShim({}), write_fault=io_fault)
            ctx.invocations += 1
            ctx.event(fault, plan["order"], plan["mode"], res.exit_code, invoker.digest_snapshot(res.after))
            if io_fault and not sum(e.get("fired", 0) for e in res.events if e.get("kind") == "io_fault"):
                ctx.count("read_fault_not_reached")
                continue
            ctx.fault("fs_" + fault["kind"] if fault["kind"] in ("break", "remove", "break+cover", "unreadable") else
                      ("config_" + fault["kind"] if fault["kind"] in ("cover", "cover_first", "alias_extra", "cfg_break") else "version_" + fault["kind"]))
            ctx.nontriv((runner.short_hash(project["cfg"]["file_patterns"]), runner.short_hash(fault), plan["order"], plan["mode"]))
            ctx.transition((fault["kind"], plan["mode"], res.exit_code, project["vcs"] is not None))
            detail = "fault %s order %d mode %s argv %s -> exit %s (%s)" % (
                fault, plan["order"], plan["mode"], argv, res.exit_code, res.exc or [m for _l, _n, m in res.logs][-2:])
            if res.exit_code == 0 and fault["kind"] == "cover_first":
                # accepted: then every configured pattern still finds, in the file as written, a text of its own (C02: what is
                # rendered is recognised again) - a greedy entry must not have written its spelling into another's text
                from sim import adapter
                ctx.count("greedy_first_pattern_accepted")
                for f in project["files"]:
                    content = res.after.get(f["path"], b"").decode("utf-8", "replace")
                    for raw in f["patterns"]:
                        if not adapter.search_pattern_finds(pattern, raw, content):
                            ctx.violation("C02", "written_text_not_recognised", dict(facts, path=f["path"]),
                                          "after an accepted update %r no longer holds a match of its pattern %r: %s" % (
                                              f["path"], raw, detail))
                            break
                snap_cfg = res.after.get(w.syntax, b"").decode("utf-8", "replace")
                new_ann = res.log_value("New Version: ")
                if new_ann and new_ann not in snap_cfg:
                    ctx.violation("C02", "written_text_not_recognised", dict(facts, path=w.syntax),
                                  "announced %r, the config file does not show it: %s" % (new_ann, detail))
                continue
            if res.exit_code == 0 and fault["kind"] == "cover":
                # accepting a shadowed pattern would be a legitimate design too; the statement only speaks of updates that fail
                ctx.count("shadowed_pattern_accepted")
                continue
            if res.exit_code == 0:
                ctx.violation("C06", "fault_ignored", facts, "update succeeded although the rewrite cannot complete: " + detail)
            if res.changed:
                changed = sorted(p for p in res.after if res.after.get(p) != res.before.get(p))
                ctx.violation("C06", "failed_update_changed_files", dict(facts, nchanged=len(changed)),
                              "files %s changed although the update failed: %s" % (changed[:4], detail))
                if dry_failed:
                    ctx.violation("C06", "dry_error_but_real_changed", facts, "--dry reported the error, real run changed files: " + detail)
            bad_events = [e for e in res.events if e["kind"] == "hook" or (e["kind"] == "vcs" and e["role"] in fakevcs.MUTATING)]
            if bad_events:
                ctx.violation("C06", "failed_update_touched_vcs", facts, "VCS/hook activity %s: %s" % (
                    [e.get("role") or e["path"] for e in bad_events], detail))
