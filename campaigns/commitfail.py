"""COMMITFAIL: real git refuses the release commit (a `pre-commit` *git* hook that exits 1, optionally after "fixing" a file)
while the developer has uncommitted work in a tracked file that bumpver was told nothing about (`--allow-dirty`).

Whatever bumpver then does about its own failure - stop, clean up, retry -
  C04  a file that is not named in the configuration still holds exactly the bytes it held before (and no new file appeared
       outside the configured ones and the hook's own output),
  C12  nothing but configured paths was ever staged: the index differs from HEAD in configured paths only,
  C10  no commit, no tag came out of a commit step that failed for good.
Fault-free twin runs (hook accepts) make sure the world is one in which the update works."""
import os
import stat
import datetime as dt

import runner
from sim import invoker, fakevcs, realgit, world as simworld
from ref import pattern as rp, legacy
from gen import patterns as gp, layouts


class CommitFail:
    def __init__(self, focus, quick, thorough):
        self.focus = focus
        self.name = "COMMITFAIL/" + focus
        self._quick, self._thorough = quick, thorough

    def total(self, tier):
        return self._quick if tier == "quick" else self._thorough

    def deadline(self, tier):
        return 150 if tier == "quick" else 1200

    def gen(self, seed, index, tier):
        rng = runner.rng_for(seed, self.name, index)
        project = layouts.gen_project(rng, mode="plain", allow_mixed=False, vcs="none", allow_odd_paths=False, allow_symlinks=False,
                                      allow_glob=False, max_files=3, clock_patterns=False)
        project["cfg"].update({"commit": True, "tag": rng.random() < 0.7, "push": False})
        project["vcs"] = None
        tree = legacy.tokenize_any(project["version_pattern"])
        flags = gp.gen_flags(rng, tree)
        flags.pop("pin_date", None)
        return {"project": project, "flags": flags,
                # how git's hook turns the commit down: plainly, or after touching a tracked file (formatter / lock-file style)
                "hook": rng.choice(["reject", "reject", "fix_and_reject", "reject_once"]),
                "dirty": rng.choice(["unstaged", "unstaged", "staged", "both"]),
                "control": rng.random() < 0.25, "ops": [{"op": "update"}]}

    def run(self, case, ctx):
        project = case["project"]
        w = simworld.World(project)
        w.materialise()
        tree = legacy.tokenize_any(project["version_pattern"])
        clock = dt.date.fromisoformat(project["epoch"])
        notes, gen = "unrelated_notes.txt", "GENERATED.lock"
        invoker.write_tree(w.dir, {notes: b"chapter one\n", gen: b"lock 0\n"})
        rg = realgit.RealGit(w.dir, clock, remote=False)
        rg.init()
        hooks = w.dir + ".hooks"
        os.makedirs(hooks, exist_ok=True)
        marker = w.dir + ".hook-ran"
        body = {"reject": "exit 1\n",
                "fix_and_reject": "echo 'lock fixed' >> '%s'\nexit 1\n" % os.path.join(w.dir, gen),
                "reject_once": "if [ -e '%s.twice' ]; then exit 0; fi\ntouch '%s.twice'\necho fixed >> '%s'\nexit 1\n" % (
                    marker, marker, os.path.join(w.dir, gen))}[case["hook"]]
        if case.get("control"):
            body = "exit 0\n"
        with open(os.path.join(hooks, "pre-commit"), "w") as fobj:
            fobj.write("#!/bin/sh\ntouch '%s'\n%s" % (marker, body))
        os.chmod(os.path.join(hooks, "pre-commit"), 0o755)
        rg.git("config", "core.hooksPath", hooks)
        # the developer's unfinished work in a tracked file bumpver knows nothing about
        with open(os.path.join(w.dir, notes), "ab") as fobj:
            fobj.write(b"half a sentence\n")
        if case["dirty"] in ("staged", "both"):
            rg.git("add", "--", notes)
        if case["dirty"] == "both":
            with open(os.path.join(w.dir, notes), "ab") as fobj:
                fobj.write(b"and a second thought\n")
        notes_before = open(os.path.join(w.dir, notes), "rb").read()
        staged_before = set(x for x in rg.git("diff", "--cached", "--name-only", "-z").split("\0") if x)
        head0, tags0 = rg.head(), set(rg.tags())
        argv = ["update", "--allow-dirty", "--no-fetch", "--date", clock.isoformat()] + gp.flags_to_argv(case.get("flags", {}))
        res = invoker.invoke(w.dir, argv, clock, fakevcs.VcsShim(None, forward_env=rg.env), realgit.PassthroughHooks())
        ctx.invocations += 1
        hook_ran = os.path.exists(marker)
        for p in (marker, marker + ".twice"):
            if os.path.exists(p):
                os.unlink(p)
        head1, tags1 = rg.head(), set(rg.tags())
        staged_after = set(x for x in rg.git("diff", "--cached", "--name-only", "-z").split("\0") if x)
        ctx.event(argv, case["hook"], case["dirty"], res.exit_code, hook_ran, head1 != head0, sorted(tags1 - tags0), sorted(staged_after))
        ctx.sample = {"campaign": self.name, "argv": argv, "git_hook": case["hook"], "dirty": case["dirty"], "exit": res.exit_code}
        ctx.nontriv((runner.short_hash(project["cfg"]["file_patterns"]), case["hook"], case["dirty"], bool(case.get("control"))))
        ctx.state((case["hook"], case["dirty"], bool(case.get("control")), res.exit_code != 0))
        facts = {"pattern": project["version_pattern"], "git_hook": case["hook"], "dirty": case["dirty"]}
        if not hook_ran:
            ctx.count("commit_step_not_reached")      # the update failed earlier for a reason of its own
            return
        configured = set(w.configured)
        if case.get("control"):
            ctx.probe("control_commit_accepted")
            if res.exit_code != 0:
                ctx.count("control_run_failed")
            return
        ctx.fault("git_pre_commit_hook_" + case["hook"])
        notes_after = open(os.path.join(w.dir, notes), "rb").read() if os.path.exists(os.path.join(w.dir, notes)) else None
        if notes_after != notes_before:
            ctx.violation("C04", "unconfigured_file_written", dict(facts, path=notes),
                          "git refused the commit (%s); afterwards the developer's %s holds %r, before the run %r" % (
                              case["hook"], notes, notes_after, notes_before))
        foreign = sorted((staged_after - staged_before) - configured)
        if foreign:
            ctx.violation("C12", "staged_path_not_configured", dict(facts, paths=foreign),
                          "paths %s were staged; configured are %s" % (foreign, sorted(configured)))
        if head1 != head0:
            files = set(rg.files_of("HEAD"))
            if not files <= configured:
                ctx.violation("C12", "staged_path_not_configured", dict(facts, paths=sorted(files - configured)),
                              "the commit made after git's refusal holds %s; configured are %s" % (sorted(files), sorted(configured)))
        if case["hook"] != "reject_once":
            if head1 != head0 or tags1 != tags0:
                ctx.violation("C10", "step_after_failure", facts, "the commit step failed for good, yet %s" % (
                    "HEAD moved" if head1 != head0 else "tags %s appeared" % sorted(tags1 - tags0)))
            if res.exit_code == 0:
                ctx.violation("C10", "exit_code", facts, "git refused the commit and bumpver exited 0")
