"""BADCONFIG: configurations that are *not* well-formed, and what must not follow from them.

dup_key  (C03)  setup.cfg lists one file twice in [bumpver:file_patterns], its patterns split over the two blocks.  configparser
                refuses a repeated option, bumpver stops.  Whatever a program does instead: if an update exits 0 and announces a
                version, every occurrence of every listed pattern shows it (the walker) - dropping one block silently is the
                failure this guards against.
no_delim (C18)  the same slip - a file key that lost its `=` - in setup.cfg and in bumpver.toml.  Both are syntax errors and
                both are refused; a loader that shrugs one of them off makes the two syntaxes disagree on the same mistake."""
import os
import copy
import datetime as dt

import runner
from sim import invoker, world as simworld
from ref import pattern as rp, legacy
from gen import patterns as gp, layouts
from campaigns import testcmd as tc
from campaigns import siblings as sib


class BadConfig:
    def __init__(self, focus, mode, quick, thorough):
        self.focus, self.mode = focus, mode
        self.name = "BADCONFIG/" + focus
        self._quick, self._thorough = quick, thorough

    def total(self, tier):
        return self._quick if tier == "quick" else self._thorough

    def deadline(self, tier):
        return 120 if tier == "quick" else 900

    def gen(self, seed, index, tier):
        rng = runner.rng_for(seed, self.name, index)
        for _ in range(40):
            project = layouts.gen_project(rng, mode="plain", syntaxes=["setup.cfg"], vcs="none", allow_glob=False,
                                          allow_odd_paths=False, allow_symlinks=False, clock_patterns=False, max_files=3)
            cands = [f for f in project["files"] if len(f["patterns"]) >= 2 and not f.get("overlap")
                     and any(k == f["path"] for k, _v in project["cfg"]["file_patterns"])]
            if cands:
                break
        else:
            return {"project": project, "skip": True, "ops": []}
        f = rng.choice(cands)
        tree = legacy.tokenize_any(project["version_pattern"])
        flags = gp.gen_flags(rng, tree)
        flags.pop("pin_date", None)
        return {"project": project, "path": f["path"], "cut": rng.randint(1, len(f["patterns"]) - 1), "flags": flags,
                "style_seed": rng.randrange(1 << 30), "ops": [{"op": "update"}]}

    def run(self, case, ctx):
        if case.get("skip"):
            ctx.count("no_candidate_file")
            return
        project = copy.deepcopy(case["project"])
        tree = legacy.tokenize_any(project["version_pattern"])
        state = dict(project["state"])
        text = rp.render(tree, state)
        clock = dt.date.fromisoformat(project["epoch"])
        argv = ["update"] + gp.flags_to_argv(case.get("flags", {})) + ["--date", clock.isoformat()]
        facts = {"pattern": project["version_pattern"], "mode": self.mode}
        ctx.sample = {"campaign": self.name, "mode": self.mode, "file": case["path"], "argv": argv}
        if self.mode == "dup_key":
            entries = []
            for k, v in project["cfg"]["file_patterns"]:
                if k == case["path"]:
                    entries.append([k, v[:case["cut"]]])
                    entries.append([k, v[case["cut"]:]])
                else:
                    entries.append([k, v])
            project["cfg"]["file_patterns"] = entries
            w = simworld.World(project)
            w.materialise()
            res = invoker.invoke(w.dir, argv, clock)
            ctx.invocations += 1
            ctx.event(argv, res.exit_code, invoker.digest_snapshot(res.after))
            ctx.nontriv((runner.short_hash(entries), res.exit_code))
            ctx.state((self.mode, res.exit_code != 0))
            if res.exit_code != 0:
                ctx.probe("repeated_key_refused")
                if res.changed:
                    ctx.violation("C06", "failed_update_changed_files", facts, "update exit %s, files changed" % res.exit_code)
                return
            ctx.probe("repeated_key_accepted")
            new_text = res.log_value("New Version: ")
            st = rp.recognise(tree, new_text) if new_text else []
            if not st:
                ctx.violation("C01", "exit0_without_version", facts, "exit 0, announced %r" % new_text)
                return
            w.walk(ctx, res.after, st[0], new_text, state, text, dict(facts, repeated_key=True))
            return
        # no_delim: the same slip in two syntaxes
        import random
        srng = random.Random(case["style_seed"])
        outcomes = []
        for syntax in ("setup.cfg", "bumpver.toml"):
            p = sib.sibling_project(project, syntax, "bumpver", srng)
            p["style"]["ini_inline"] = False
            p["style"]["toml_inline"] = True
            w = simworld.World(p)
            w.materialise()
            cfg_path = os.path.join(w.dir, syntax)
            with open(cfg_path, "rb") as fobj:
                data = fobj.read().decode("utf-8")
            key = case["path"]
            if syntax == "setup.cfg":
                lines = data.split("\n")
                hit = [i for i, ln in enumerate(lines) if ln.rstrip("\r").rstrip() in (key + " =", key + "=", key + " :", key + ":", key + " : ", key + ": ")]
                if not hit:
                    ctx.count("key_line_not_found")
                    return
                lines[hit[0]] = key + ("\r" if lines[hit[0]].endswith("\r") else "")
                broken = "\n".join(lines)
            else:
                broken = data.replace('"%s" = [' % key, '"%s" [' % key, 1).replace('"%s"= [' % key, '"%s" [' % key, 1)
                if broken == data:
                    ctx.count("key_line_not_found")
                    return
            with open(cfg_path, "wb") as fobj:
                fobj.write(broken.encode("utf-8"))
            res = invoker.invoke(w.dir, argv, clock)
            ctx.invocations += 1
            ctx.event(syntax, argv, res.exit_code, invoker.digest_snapshot(res.after))
            if res.exit_code != 0 and res.changed:
                ctx.violation("C06", "failed_update_changed_files", facts, "%s: update exit %s, files changed" % (syntax, res.exit_code))
            outcomes.append((syntax, res.exit_code == 0, res.log_value("New Version: ") if res.exit_code == 0 else None))
        ctx.nontriv((runner.short_hash(project["cfg"]["file_patterns"]), tuple(o[1] for o in outcomes)))
        ctx.state((self.mode, tuple(o[1] for o in outcomes)))
        ctx.probe("missing_delimiter_" + ("refused_by_both" if not any(o[1] for o in outcomes) else "accepted_somewhere"))
        if len(set(o[1] for o in outcomes)) > 1:
            ctx.violation("C18", "config_accepted_differently", dict(facts, a=outcomes[0][0], b=outcomes[1][0]),
                          "a file key without its `=`: %s" % ", ".join("%s %s" % (s, "accepted (-> %s)" % n if ok else "refused") for s, ok, n in outcomes))
