"""Sensitivity self-test: a catalogue of realistic source mutations.  Each one is applied to a scratch copy of
/repo (outside /repo and /verif, removed afterwards); the unedited test suite must still pass with it (otherwise the
mutation is 'suite-caught' and says nothing), and the owning check (quick tier, VERIF_REPO_SRC pointing at the copy)
must report a VIOLATION.

usage: check selftest sensitivity [--no-suite] [NAME ...]"""
import os
import sys
import json
import shutil
import subprocess

HERE = os.path.dirname(os.path.abspath(__file__))
PYTHON = "/venv/bin/python"

M = []
# Dropped after the first run because they are equivalent on this platform / in this code base (not observable):
#   write_drop_newline_arg  - newline=None on *write* only translates "\n" to os.linesep, which is "\n" on Linux
#   inc1_reset_to_zero      - _reset_rollover_fields re-applies inc1=1 after reading the table
#   tag_change_keeps_num    - the rollover rule already zeroes NUM whenever TAG (to its left) changes


def mut(name, props, path, old, new, count=1):
    M.append({"name": name, "props": props, "path": "src/bumpver/" + path, "old": old, "new": new, "count": count})


# ---- C01 / C02
mut("gate_le_to_lt", ["C01"], "cli.py", "if version.parse_version(new_version) <= version.parse_version(old_version):",
    "if version.parse_version(new_version) < version.parse_version(old_version):")
mut("v2_drop_full_length_check", ["C01", "C02", "C06"], "v2version.py", "    elif len(match.group()) < len(version_str):", "    elif False:")
mut("v1_drop_full_length_check", ["C20", "C01"], "v1version.py", "    elif len(match.group()) < len(version_str):", "    elif False:")
mut("skip_gate_for_set_version", ["C01", "C06"], "cli.py",
    "    if not _is_valid_version(cfg.version_pattern, old_version, new_version, unique=uniqueness_check):",
    "    if set_version is None and not _is_valid_version(cfg.version_pattern, old_version, new_version, unique=uniqueness_check):")
mut("test_cmd_skip_gate_for_set_version", ["C01"], "cli.py", "    if not _is_valid_version(raw_pattern, old_version, new_version):",
    "    if set_version is None and not _is_valid_version(raw_pattern, old_version, new_version):")
mut("0M_regex_accepts_13", ["C02", "C09"], "v2patterns.py", "('0M'  , r\"1[0-2]|0[1-9]\"),", "('0M'  , r\"1[0-3]|0[1-9]\"),")
mut("JJJ_format_padded", ["C02", "C05"], "v2patterns.py", "    'JJJ'    : _fmt_num,", "    'JJJ'    : _fmt_00j,")
mut("root_segment_omitted_again", ["C04", "C05", "C02", "C03"], "v2version.py",
    '    result = "" if (is_zero and not is_root) else "".join(result_parts)', '    result = "" if is_zero else "".join(result_parts)')
# ---- C03 / C04
mut("rewrite_from_old_line", ["C03"], "v2rewrite.py", "        cur_line = new_lines[match.lineno]", "        cur_line = match.line")
mut("only_first_match_per_line", ["C03"], "parse.py", "        for match in pattern.regexp.finditer(line):",
    "        for match in [m for m in [pattern.regexp.search(line)] if m]:")
mut("read_drop_newline_arg", ["C04", "C03"], "v2rewrite.py", '        with file_path.open(mode="rt", newline=\'\', encoding="utf-8") as fobj:\n            content = fobj.read()\n\n        rfd = rfd_from_content(patterns, new_vinfo, content)\n        yield',
    '        with file_path.open(mode="rt", encoding="utf-8") as fobj:\n            content = fobj.read()\n\n        rfd = rfd_from_content(patterns, new_vinfo, content)\n        yield')
mut("write_drop_encoding", ["C04"], "v2rewrite.py", '        with io.open(file_data.path, mode="wt", newline=\'\', encoding="utf-8") as fobj:',
    '        with io.open(file_data.path, mode="wt", newline=\'\') as fobj:')
mut("detect_line_sep_cr_before_crlf", ["C04", "C03", "C13"], "rewrite.py",
    '    if "\\r\\n" in content:\n        return "\\r\\n"\n    elif "\\r" in content:\n        return "\\r"',
    '    if "\\r" in content and "\\r\\n" not in content.replace("\\r\\n\\r\\n", ""):\n        return "\\r"\n    elif "\\r\\n" in content:\n        return "\\r\\n"')
mut("splitlines_instead_of_split", ["C04"], "v2rewrite.py", "    old_lines = content.split(line_sep)", "    old_lines = content.splitlines()")
mut("strip_trailing_newline_on_write", ["C04"], "v2rewrite.py", "        new_content = file_data.line_sep.join(file_data.new_lines)",
    "        new_content = file_data.line_sep.join(file_data.new_lines).rstrip(file_data.line_sep) + file_data.line_sep")
# ---- C05
mut("pin_date_week0_or_default", ["C05"], "v2version.py", "        defaults.week_w if vinfo.week_w is None else vinfo.week_w,", "        vinfo.week_w or defaults.week_w,")
mut("no_reset_after_calendar_change", ["C05"], "v2version.py", "        elif getattr(old_vinfo, field) != getattr(cur_vinfo, field):\n            has_reset = True",
    "        elif field not in ('year_y', 'month') and getattr(old_vinfo, field) != getattr(cur_vinfo, field):\n            has_reset = True")
mut("future_guard_removed", ["C05", "C14"], "v2version.py", "    if _is_cal_gt(old_vinfo, cur_cinfo):", "    if False and _is_cal_gt(old_vinfo, cur_cinfo):")
mut("week_w_uses_percent_U", ["C05", "C14", "C02"], "v2version.py", "        'week_w' : int(date.strftime(\"%W\"), base=10),", "        'week_w' : int(date.strftime(\"%U\"), base=10),")
# ---- C06
mut("rewrite_files_lazy_again", ["C06"], "v2rewrite.py", "    for file_data in list(iter_rewritten(file_patterns, new_vinfo)):", "    for file_data in iter_rewritten(file_patterns, new_vinfo):")
mut("partial_match_not_an_error", ["C06"], "v2rewrite.py", "    if set(patterns) == found_patterns:\n        return new_lines", "    if found_patterns:\n        return new_lines")
mut("missing_file_skipped", ["C06"], "rewrite.py", "            errmsg = f\"File does not exist: '{filepath_str}'\"\n            raise IOError(errmsg)", "            continue")
# ---- C09
mut("default_scope_le_to_lt", ["C09"], "cli.py", "        if version.parse_version(latest_version_tag) <= version.parse_version(cfg.current_version):",
    "        if version.parse_version(latest_version_tag) >= version.parse_version(cfg.current_version):")
mut("branch_scope_lists_all_tags", ["C09"], "vcs.py", "        if branch_scope:\n            return vcs_api.ls_tags_branch()", "        if False:\n            return vcs_api.ls_tags_branch()")
mut("tags_sorted_as_strings", ["C09", "C08"], "cli.py", "        version_tags.sort(key=version.parse_version, reverse=True)", "        version_tags.sort(reverse=True)")
mut("uniqueness_not_for_ignore_vcs_tag", ["C09"], "cli.py", " or set_version is not None or ignore_vcs_tag", " or set_version is not None")
mut("impossible_date_crashes_again", ["C09"], "v2version.py", "        except ValueError as err:\n            # e.g. \"2021.02.30\"", "        except ZeroDivisionError as err:\n            # e.g. \"2021.02.30\"")
# ---- C10
mut("post_hook_before_commit", ["C10"], "vcs.py",
    "        vcs_api.commit(commit_message)\n\n        if cfg.post_commit_hook:\n            logger.info(f\"Run post-commit hook: {cfg.post_commit_hook}\")\n            hooks.run(cfg.post_commit_hook, cfg.current_version, new_version)\n",
    "        if cfg.post_commit_hook:\n            logger.info(f\"Run post-commit hook: {cfg.post_commit_hook}\")\n            hooks.run(cfg.post_commit_hook, cfg.current_version, new_version)\n\n        vcs_api.commit(commit_message)\n")
mut("dry_returns_after_update", ["C10", "C13", "C01"], "cli.py", "    if dry:\n        return\n\n    _try_update(cfg, new_version, try_commit_message, try_tag_message, allow_dirty)",
    "    _try_update(cfg, new_version, try_commit_message, try_tag_message, allow_dirty)\n    if dry:\n        return")
mut("hook_failure_ignored", ["C10"], "hooks.py", "    if proc.returncode != 0:\n        logger.error(\"Script exited with an error. Stopping\")\n        sys.exit(1)",
    "    if proc.returncode != 0:\n        logger.error(\"Script exited with an error. Stopping\")")
mut("no_fetch_ignored", ["C10"], "vcs.py", "        if fetch:\n            logger.info(\"fetching tags from remote", "        if True:\n            logger.info(\"fetching tags from remote")
mut("push_without_commit_accepted", ["C10"], "cli.py", "    if not cfg.commit and push:\n        raise ValueError(\"--push requires either --commit or commit=True in your config\")",
    "    if False and push:\n        raise ValueError(\"--push requires either --commit or commit=True in your config\")")
mut("hook_env_old_is_new", ["C10"], "hooks.py", "BUMPVER_OLD_VERSION=old_version", "BUMPVER_OLD_VERSION=new_version")
mut("dirty_check_after_rewrite", ["C10", "C11"], "cli.py",
    "    if vcs_api:\n        vcs.assert_not_dirty(vcs_api, filepaths, allow_dirty)\n\n    try:",
    "    try:")
mut("tag_even_if_commit_failed", ["C10"], "vcs.py", "        vcs_api.commit(commit_message)\n", "        try:\n            vcs_api.commit(commit_message)\n        except Exception:\n            pass\n")
# ---- C11
mut("porcelain_split_on_space_again", ["C11"], "vcs.py", "                status = line[:2].strip()\n                for filepath in line[3:].split(\" -> \"):\n                    status_items.append((status, filepath))",
    "                status, filepath = line.split(\" \", 1)\n                status_items.append((status, filepath))")
mut("untracked_files_block", ["C11"], "vcs.py", "            elif filepath in required_files or status != \"??\":", "            elif True:")
mut("allow_dirty_skips_pattern_file_check", ["C11"], "vcs.py", "    dirty_pattern_files = set(dirty_files) & filepaths", "    dirty_pattern_files = set() if allow_dirty else set(dirty_files) & filepaths")
# ---- C12
mut("format_then_shlex_again", ["C12"], "vcs.py", "        cmd_parts = [part.format(**kwargs) for part in shlex.split(cmd_tmpl)]", "        cmd_parts = shlex.split(cmd_str)")
mut("commit_message_stripped", ["C12"], "vcs.py", "            self('commit', env=env, message=message)", "            self('commit', env=env, message=message.strip())")
mut("new_shorthand_without_word_boundary", ["C12"], "cli.py", "    return re.sub(r\"\\b(OLD|NEW)\\b\", r\"{\\1_VERSION}\", message)", "    return re.sub(r\"(OLD|NEW)\", r\"{\\1_VERSION}\", message)")
mut("tag_message_uses_commit_template", ["C12"], "cli.py", "    try_tag_message    = tag_msg_template.format(**tag_and_commit_message_kwargs)",
    "    try_tag_message    = commit_msg_template.format(**tag_and_commit_message_kwargs) if tag_msg_template else \"\"")
# ---- C13
mut("diff_unsorted_vs_rewrite", ["C13"], "v2rewrite.py", "            rfd = rfd_from_content(patterns, new_vinfo, content)\n        except rewrite.NoPatternMatch as ex:",
    "            rfd = rfd_from_content(patterns[:1], new_vinfo, content)\n        except rewrite.NoPatternMatch as ex:")
mut("diff_context_two_lines", ["C13"], "rewrite.py", "        lineterm=\"\",\n", "        lineterm=\"\",\n        n=0,\n")
# ---- C14
mut("week_year_guard_removed", ["C14"], "v2version.py", "    if has_yy_part and has_vv_part:", "    if False and has_yy_part and has_vv_part:")
mut("year_g_from_percent_Y", ["C14", "C05", "C02"], "v2version.py", "        'year_g' : int(date.strftime(\"%G\"), base=10),", "        'year_g' : int(date.strftime(\"%Y\"), base=10),")
# ---- C15
mut("pep440_keeps_BUILD_padding", ["C15"], "v2patterns.py", "    'BUILD': \"BLD\",", "    'BUILD': \"BUILD\",")
mut("pep440_keeps_v_prefix", ["C15"], "v2patterns.py", "    if pep440_pattern.startswith(\"v\"):\n        pep440_pattern = pep440_pattern[1:]", "    if False:\n        pep440_pattern = pep440_pattern[1:]")
mut("pep440_long_tag", ["C15"], "v2patterns.py", "    'TAG'  : \"PYTAG\",", "    'TAG'  : \"TAG\",")
mut("to_pep440_identity", ["C15"], "version.py", "    return str(parse_version(version))", "    return version")
# ---- C17
mut("no_padding_below_1000", ["C17"], "v2version.py", "    if int(cur_vinfo.bid) < 1000:", "    if False and int(cur_vinfo.bid) < 1000:")
mut("bld_renders_padded", ["C17", "C02", "C15"], "v2patterns.py", "def _fmt_bld(val: FieldValue) -> str:\n    return str(int(val))", "def _fmt_bld(val: FieldValue) -> str:\n    return str(val)")
# ---- C18
mut("ini_bool_without_on", ["C18"], "config.py", 'val.lower() in ("yes", "true", "1", "on")', 'val.lower() in ("yes", "true", "1")')
mut("toml_tag_defaults_true", ["C18"], "config.py", "    for option, default_val in BOOL_OPTIONS.items():\n        raw_cfg[option] = raw_cfg.get(option, default_val)",
    "    for option, default_val in BOOL_OPTIONS.items():\n        raw_cfg[option] = raw_cfg.get(option, True if option == 'commit' and 'tag' in raw_cfg else default_val)")
mut("ini_tag_scope_not_unquoted", ["C18"], "config.py", "        raw_cfg[key] = raw_cfg[key].strip(\"'\\\" \")\n    return raw_cfg.get(key, default)", "        raw_cfg[key] = raw_cfg[key].strip(\"' \")\n    return raw_cfg.get(key, default)")
mut("pyproject_section_ignored_after_bumpver", ["C18"], "config.py", "    if 'tool' in raw_full_cfg and 'bumpver' in raw_full_cfg['tool']:", "    if 'tool' in raw_full_cfg and 'bumpver' in raw_full_cfg['tool'] and 'project' not in raw_full_cfg:")
# ---- C19
mut("init_overwrites_file", ["C19"], "config.py", '    with ctx.config_filepath.open(mode="at", encoding="utf-8") as fobj:', '    with ctx.config_filepath.open(mode="wt", encoding="utf-8") as fobj:')
mut("init_dry_writes", ["C19"], "cli.py", "        sys.exit(0)\n\n    config.write_content(ctx)", "        config.write_content(ctx)\n        sys.exit(0)\n\n    config.write_content(ctx)")
mut("prefers_unconfigured_file", ["C19"], "config.py", "            if has_bumpver_section:\n                return config_filepath", "            if has_bumpver_section and config_filepath.name != 'setup.cfg':\n                return config_filepath")
mut("initial_version_fixed_year", ["C19"], "config.py", '    return utils.now().strftime("%Y.1001-alpha")', '    return "2023.1001-alpha"')
# ---- C20
mut("legacy_month_unpadded", ["C20"], "v1patterns.py", "    'month'      : \"{month:02}\",", "    'month'      : \"{month}\",")
mut("legacy_bid_not_incremented_on_tag", ["C20"], "v1version.py", "    cur_vinfo = cur_vinfo._replace(bid=lexid.next_id(cur_vinfo.bid))", "    cur_vinfo = cur_vinfo._replace(bid=cur_vinfo.bid if tag else lexid.next_id(cur_vinfo.bid))")
mut("dispatch_by_brace_only", ["C20"], "cli.py", "    if has_v1_part:\n        return v1version.incr(", "    if has_v1_part and 'semver' not in raw_pattern:\n        return v1version.incr(")
# ---- C08
mut("config_file_not_staged", ["C08", "C10", "C12"], "vcs.py", "        for filepath in filepaths:\n            vcs_api.add(filepath)", "        for filepath in sorted(filepaths)[1:]:\n            vcs_api.add(filepath)")
mut("tag_before_commit", ["C08", "C10"], "vcs.py", "    if cfg.commit and cfg.tag:\n        vcs_api.tag(tag_name=new_version, tag_message=tag_message)\n",
    "")
mut("tag_points_elsewhere", ["C08"], "vcs.py", "        'tag'           : \"git tag --annotate {tag} --message '{message}'\",", "        'tag'           : \"git tag --annotate {tag} HEAD~1 --message '{message}'\",")


def apply(root, m):
    path = os.path.join(root, m["path"])
    with open(path) as fobj:
        s = fobj.read()
    if s.count(m["old"]) < 1:
        return False
    s = s.replace(m["old"], m["new"], m["count"])
    with open(path, "w") as fobj:
        fobj.write(s)
    return True


def run_suite(root):
    env = dict(os.environ, PYTHONPATH=os.path.join(root, "src"), PYTHONDONTWRITEBYTECODE="1")
    proc = subprocess.run([PYTHON, "-m", "pytest", "-q", "-p", "no:cacheprovider", "--timeout=900", "-x", "-q",
                           "--continue-on-collection-errors", "--deselect", "scripts", "test", "src"],
                          cwd=root, env=env, stdout=subprocess.PIPE, stderr=subprocess.STDOUT, timeout=900)
    out = proc.stdout.decode("utf-8", "replace")
    return out


def suite_verdict(root, baseline_failed):
    env = dict(os.environ, PYTHONPATH=os.path.join(root, "src"), PYTHONDONTWRITEBYTECODE="1")
    proc = subprocess.run([PYTHON, "-m", "pytest", "-q", "-p", "no:cacheprovider", "--timeout=900", "-rf",
                           "--continue-on-collection-errors", "test", "src"],
                          cwd=root, env=env, stdout=subprocess.PIPE, stderr=subprocess.STDOUT, timeout=1200)
    out = proc.stdout.decode("utf-8", "replace")
    failed = set()
    for line in out.splitlines():
        if line.startswith("FAILED ") or line.startswith("ERROR "):
            failed.add(line.split(" ")[1])
    return failed - baseline_failed, failed


def main(args):
    check_suite = True
    names = []
    for a in args:
        if a == "--no-suite":
            check_suite = False
        else:
            names.append(a)
    todo = [m for m in M if not names or m["name"] in names]
    scratch_base = "/dev/shm/bumpver-verif-mutants-%d" % os.getpid()
    os.makedirs(scratch_base, exist_ok=True)
    results = []
    try:
        baseline_failed = set()
        if check_suite:
            root = os.path.join(scratch_base, "base")
            subprocess.check_call(["git", "-C", "/repo", "worktree", "add", "--detach", "-q", root, "HEAD"])
            try:
                _new, baseline_failed = suite_verdict(root, set())
            finally:
                subprocess.call(["git", "-C", "/repo", "worktree", "remove", "--force", root])
        for m in todo:
            root = os.path.join(scratch_base, m["name"])
            subprocess.check_call(["git", "-C", "/repo", "worktree", "add", "--detach", "-q", root, "HEAD"])
            try:
                if not apply(root, m):
                    results.append((m["name"], "NOT-APPLICABLE (source text not found)", ""))
                    continue
                verdict = "?"
                if check_suite:
                    new_fail, _all = suite_verdict(root, baseline_failed)
                    if new_fail:
                        results.append((m["name"], "suite-caught", ",".join(sorted(new_fail))[:120]))
                        continue
                caught_by = []
                for prop in m["props"]:
                    env = dict(os.environ, VERIF_REPO_SRC=os.path.join(root, "src"), VERIF_NO_EVIDENCE="1")
                    proc = subprocess.run([os.path.join(HERE, "check"), prop, "--tier", "quick"], cwd=HERE, env=env,
                                          stdout=subprocess.PIPE, stderr=subprocess.STDOUT, timeout=1200)
                    out = proc.stdout.decode("utf-8", "replace")
                    if proc.returncode == 1 and "VIOLATION property=%s" % prop in out:
                        caught_by.append(prop)
                        break
                    if proc.returncode == 2:
                        caught_by.append(prop + "(harness-error)")
                verdict = "CAUGHT by " + ",".join(caught_by) if any("(" not in c for c in caught_by) else "MISSED " + ",".join(caught_by)
                results.append((m["name"], verdict, ",".join(m["props"])))
            finally:
                subprocess.call(["git", "-C", "/repo", "worktree", "remove", "--force", root])
                print("%-44s %s" % results[-1][:2], flush=True)
    finally:
        shutil.rmtree(scratch_base, ignore_errors=True)
        subprocess.call(["git", "-C", "/repo", "worktree", "prune"])
        for f in os.listdir(os.path.join(HERE, "replays")):
            if f.endswith(".json"):
                os.unlink(os.path.join(HERE, "replays", f))
    with open(os.path.join(HERE, "evidence", "sensitivity.json"), "w") as fobj:
        json.dump({"results": [{"mutant": n, "verdict": v, "info": i} for n, v, i in results]}, fobj, indent=1)
    missed = [r for r in results if r[1].startswith("MISSED")]
    print("sensitivity: %d mutants, %d caught, %d suite-caught, %d missed, %d not applicable" % (
        len(results), sum(1 for r in results if r[1].startswith("CAUGHT")), sum(1 for r in results if r[1] == "suite-caught"),
        len(missed), sum(1 for r in results if r[1].startswith("NOT-APPLICABLE"))))
    return 1 if missed else 0
