#!/bin/sh
# Offline setup: nothing to build; verify the interpreter, the repo import, git, and the vendored reference files.
set -e
cd "$(dirname "$0")"
test -x /venv/bin/python
git --version >/dev/null
PYTHONHASHSEED=0 /venv/bin/python - <<'PY'
import sys, os
sys.path.insert(0, os.getcwd())
from sim import invoker
invoker.setup()
import bumpver, click, toml, lexid
print("bumpver from", bumpver.__file__)
import ref
PY
mkdir -p evidence replays
echo "setup ok"
