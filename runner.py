"""Seeds, worker processes, budgets, minimisation, replay files, known findings, evidence."""
import os
import sys
import json
import time
import hashlib
import random
import importlib
import subprocess
import faulthandler

HERE = os.path.dirname(os.path.abspath(__file__))
PYTHON = "/venv/bin/python"
HASHSEED_CLASSES = 4

CLAIMED = ["C01", "C02", "C03", "C04", "C05", "C06", "C08", "C09", "C10", "C11", "C12", "C13",
           "C14", "C15", "C17", "C18", "C19", "C20"]


def derive_seed(master_seed, campaign, index):
    h = hashlib.sha256(("%d|%s|%d" % (master_seed, campaign, index)).encode()).digest()
    return int.from_bytes(h[:8], "big")


def rng_for(master_seed, campaign, index):
    return random.Random(derive_seed(master_seed, campaign, index))


def short_hash(obj):
    data = json.dumps(obj, sort_keys=True, default=str, ensure_ascii=True)
    return hashlib.sha256(data.encode("utf-8", "surrogateescape")).hexdigest()[:12]


def load_prop(prop):
    return importlib.import_module("props.%s" % prop.lower())


class RunCtx:
    """Collects what one simulated run observed. Nothing here draws from the PRNG or reads a clock."""

    def __init__(self, prop):
        self.prop = prop
        self.violations = []
        self.counters = {}
        self.faults = {}
        self.probes = {}
        self.states = set()
        self.transitions = set()
        self.nontrivial = set()
        self.events = []
        self.invocations = 0
        self.sim_days = 0
        self.back_jumps = 0
        self.sample = None

    def violation(self, prop, kind, facts=None, detail=""):
        facts = dict(facts or {})
        facts.setdefault("kind", kind)
        self.violations.append({"property": prop, "kind": kind, "facts": facts, "detail": str(detail)[:1500]})

    def count(self, key, n=1):
        self.counters[key] = self.counters.get(key, 0) + n

    def fault(self, kind, n=1):
        self.faults[kind] = self.faults.get(kind, 0) + n

    def probe(self, name, n=1):
        self.probes[name] = self.probes.get(name, 0) + n

    def state(self, obj):
        self.states.add(short_hash(obj))

    def transition(self, obj):
        self.transitions.add(short_hash(obj))

    def nontriv(self, obj):
        self.nontrivial.add(short_hash(obj))

    def event(self, *obj):
        self.events.append(obj)

    def digest(self):
        return short_hash(self.events) + short_hash([(v["property"], v["kind"]) for v in self.violations])


def default_shrink(case):
    """Generic structural shrinking: drop chunks / single entries of case['ops']."""
    ops = case.get("ops")
    if not isinstance(ops, list) or len(ops) <= 1:
        return
    n = len(ops)
    chunk = n // 2
    while chunk >= 1:
        for start in range(0, n, chunk):
            cand = dict(case)
            cand["ops"] = ops[:start] + ops[start + chunk:]
            if cand["ops"]:
                yield cand
        chunk //= 2


def run_case(mod, campaign, case):
    """Run one concrete case; returns RunCtx.  HarnessError propagates."""
    ctx = RunCtx(mod.PROPERTY)
    from sim import invoker
    invoker.setup()
    invoker.reset_state()      # nothing an earlier run of this worker left inside bumpver's modules carries over
    try:
        campaign.run(case, ctx)
    finally:
        if not os.environ.get("VERIF_KEEP_SCRATCH"):
            invoker.purge_scratch()
    leaked = invoker.reset_state()
    if leaked:
        ctx.count("module_state_mutated_by_run", leaked)
    return ctx


def find_campaign(mod, name):
    for c in mod.CAMPAIGNS:
        if c.name == name:
            return c
    raise KeyError(name)


# --------------------------------------------------------------------------------------------
# worker


def worker_main(argv):
    prop, tier, seed, camp_name, nworkers, w, deadline_s, outfile = argv
    seed = int(seed)
    nworkers = int(nworkers)
    w = int(w)
    deadline_s = float(deadline_s)
    faulthandler.enable()
    faulthandler.dump_traceback_later(deadline_s + 120, exit=True)
    from sim import invoker
    mod = load_prop(prop)
    campaign = find_campaign(mod, camp_name)
    total = campaign.total(tier)
    if os.environ.get("VERIF_MAX_INDEX"):
        total = min(total, int(os.environ["VERIF_MAX_INDEX"]))
    only = os.environ.get("VERIF_ONLY_INDEX")
    agg = {"campaign": camp_name, "runs": 0, "invocations": 0, "counters": {}, "faults": {}, "probes": {},
           "states": set(), "transitions": set(), "nontrivial": set(), "violations": [], "samples": [],
           "digests": {}, "sim_days": 0, "back_jumps": 0, "cap_hit": False, "harness_errors": []}
    t0 = time.monotonic()
    try:
        for index in range(w, total, nworkers):
            if only is not None and int(only) != index:
                continue
            if time.monotonic() - t0 > deadline_s:
                agg["cap_hit"] = True
                break
            case = campaign.gen(seed, index, tier)
            case["_meta"] = {"campaign": camp_name, "seed": seed, "index": index, "tier": tier,
                             "hashseed": index % HASHSEED_CLASSES}
            try:
                ctx = run_case(mod, campaign, case)
            except invoker.HarnessError as ex:
                agg["harness_errors"].append({"index": index, "error": str(ex)[:500]})
                continue
            except Exception:
                import traceback
                agg["harness_errors"].append({"index": index, "error": traceback.format_exc()[-1500:]})
                continue
            agg["runs"] += 1
            agg["invocations"] += ctx.invocations
            agg["sim_days"] += ctx.sim_days
            agg["back_jumps"] += ctx.back_jumps
            for k, v in ctx.counters.items():
                agg["counters"][k] = agg["counters"].get(k, 0) + v
            for k, v in ctx.faults.items():
                agg["faults"][k] = agg["faults"].get(k, 0) + v
            for k, v in ctx.probes.items():
                agg["probes"][k] = agg["probes"].get(k, 0) + v
            agg["states"] |= ctx.states
            agg["transitions"] |= ctx.transitions
            agg["nontrivial"] |= ctx.nontrivial
            agg["digests"][str(index)] = ctx.digest()
            if len(agg["samples"]) < 2 and ctx.sample is not None:
                agg["samples"].append(ctx.sample)
            for v in ctx.violations:
                if len(agg["violations"]) < 200:
                    v = dict(v)
                    v["case"] = case
                    agg["violations"].append(v)
                else:
                    agg["counters"]["violations_dropped"] = agg["counters"].get("violations_dropped", 0) + 1
    finally:
        try:
            invoker.cleanup_scratch()
        except Exception:
            pass
    for k in ("states", "transitions", "nontrivial"):
        agg[k] = sorted(agg[k])
    tmp = outfile + ".tmp"
    with open(tmp, "w") as fobj:
        json.dump(agg, fobj)
    os.replace(tmp, outfile)
    return 0


# --------------------------------------------------------------------------------------------
# known findings


def load_known():
    path = os.path.join(HERE, "known_findings.json")
    if not os.path.exists(path):
        return []
    with open(path) as fobj:
        return json.load(fobj).get("findings", [])


def match_known(violation, known):
    for entry in known:
        if entry.get("status") != "known":
            continue
        if entry.get("property") != violation["property"]:
            continue
        ok = True
        for key, want in entry.get("match", {}).items():
            have = violation["facts"].get(key)
            if isinstance(want, list):
                if have not in want:
                    ok = False
                    break
            elif have != want:
                ok = False
                break
        if ok:
            return entry
    return None


# --------------------------------------------------------------------------------------------
# master


def _spawn_workers(prop, tier, seed, camp_name, nworkers, deadline_s, outdir):
    procs = []
    for w in range(nworkers):
        out = os.path.join(outdir, "%s.%s.%d.json" % (prop, camp_name.replace("/", "_"), w))
        env = dict(os.environ)
        offset = int(os.environ.get("VERIF_HASHSEED_OFFSET", "0"))
        env["PYTHONHASHSEED"] = str((w % HASHSEED_CLASSES) + offset)
        env["PYTHONDONTWRITEBYTECODE"] = "1"
        cmd = [PYTHON, os.path.join(HERE, "check"), "worker", prop, tier, str(seed), camp_name,
               str(nworkers), str(w), str(deadline_s), out]
        log = open(out + ".log", "wb")
        p = subprocess.Popen(cmd, cwd=HERE, env=env, stdout=log, stderr=subprocess.STDOUT)
        procs.append((w, p, out, log))
    return procs


def run_campaign(prop, tier, seed, campaign, nworkers, outdir):
    deadline_s = campaign.deadline(tier) if hasattr(campaign, "deadline") else (120 if tier == "quick" else 1500)
    procs = _spawn_workers(prop, tier, seed, campaign.name, nworkers, deadline_s, outdir)
    t_end = time.monotonic() + deadline_s + 180
    results = []
    failed = []
    for w, p, out, log in procs:
        remaining = max(1.0, t_end - time.monotonic())
        try:
            rc = p.wait(timeout=remaining)
        except subprocess.TimeoutExpired:
            p.kill()
            p.wait()
            rc = -9
        log.close()
        if rc != 0 or not os.path.exists(out):
            tail = ""
            try:
                with open(out + ".log", "rb") as fobj:
                    tail = fobj.read()[-3000:].decode("utf-8", "replace")
            except OSError:
                pass
            failed.append((w, rc, tail))
            continue
        with open(out) as fobj:
            results.append(json.load(fobj))
    return results, failed


def merge(results):
    agg = {"runs": 0, "invocations": 0, "counters": {}, "faults": {}, "probes": {}, "states": set(),
           "transitions": set(), "nontrivial": set(), "violations": [], "samples": [], "digests": {},
           "sim_days": 0, "back_jumps": 0, "cap_hit": False, "harness_errors": []}
    for r in results:
        agg["runs"] += r["runs"]
        agg["invocations"] += r["invocations"]
        agg["sim_days"] += r["sim_days"]
        agg["back_jumps"] += r["back_jumps"]
        agg["cap_hit"] = agg["cap_hit"] or r["cap_hit"]
        for key in ("counters", "faults", "probes"):
            for k, v in r[key].items():
                agg[key][k] = agg[key].get(k, 0) + v
        for key in ("states", "transitions", "nontrivial"):
            agg[key] |= set(r[key])
        agg["violations"].extend(r["violations"])
        agg["samples"].extend(r["samples"])
        agg["digests"].update(r["digests"])
        agg["harness_errors"].extend(r["harness_errors"])
    agg["violations"].sort(key=lambda v: (v["case"]["_meta"]["index"], v["kind"]))
    return agg


def write_replay(prop, violation):
    meta = violation["case"]["_meta"]
    os.makedirs(os.path.join(HERE, "replays"), exist_ok=True)
    name = "%s-%s-%d-%d-%s.json" % (prop, meta["campaign"].replace("/", "_"), meta["seed"], meta["index"],
                                   "".join(ch if ch.isalnum() else "_" for ch in violation["kind"])[:40])
    path = os.path.join(HERE, "replays", name)
    doc = {"property": violation["property"], "kind": violation["kind"], "facts": violation["facts"],
           "detail": violation["detail"], "campaign": meta["campaign"], "seed": meta["seed"],
           "index": meta["index"], "hashseed": meta["hashseed"], "minimised": False, "case": violation["case"]}
    with open(path, "w") as fobj:
        json.dump(doc, fobj, indent=1, sort_keys=True)
    return path


def minimise_file(path, budget=150):
    """Shrink the case in a replay file in place while the same (property, kind) persists."""
    path = os.path.abspath(path)     # invocations change the working directory
    with open(path) as fobj:
        doc = json.load(fobj)
    mod = load_prop(doc["property"] if doc["property"] in CLAIMED else doc["case"]["_meta"].get("prop", doc["property"]))
    campaign = find_campaign(mod, doc["campaign"])
    want = (doc["property"], doc["kind"])

    def fails(case):
        try:
            ctx = run_case(mod, campaign, case)
        except Exception:
            return None
        for v in ctx.violations:
            if (v["property"], v["kind"]) == want:
                return v
        return None

    case = doc["case"]
    if fails(case) is None:
        doc["minimise_note"] = "violation did not reproduce in the minimiser process"
        with open(path, "w") as fobj:
            json.dump(doc, fobj, indent=1, sort_keys=True)
        return False
    tries = 0
    improved = True
    while improved and tries < budget:
        improved = False
        shrinker = getattr(campaign, "shrink", None)
        cands = list(shrinker(case)) if shrinker else []
        cands += list(default_shrink(case))
        for cand in cands:
            if tries >= budget:
                break
            tries += 1
            cand = json.loads(json.dumps(cand))
            v = fails(cand)
            if v is not None:
                case = cand
                doc["facts"] = v["facts"]
                doc["detail"] = v["detail"]
                improved = True
                break
    doc["case"] = case
    doc["minimised"] = True
    doc["minimise_tries"] = tries
    with open(path, "w") as fobj:
        json.dump(doc, fobj, indent=1, sort_keys=True)
    return True


def replay_file(path):
    """-> exit code. Runs in an interpreter whose PYTHONHASHSEED is the recorded one."""
    path = os.path.abspath(path)
    with open(path) as fobj:
        doc = json.load(fobj)
    want_hs = str(doc.get("hashseed", 0))
    if os.environ.get("PYTHONHASHSEED") != want_hs:
        env = dict(os.environ)
        env["PYTHONHASHSEED"] = want_hs
        return subprocess.call([PYTHON, os.path.join(HERE, "check"), "replay", path], env=env, cwd=HERE)
    from sim import invoker
    owner = doc["case"].get("_meta", {}).get("prop", doc["property"])
    mod = load_prop(owner)
    campaign = find_campaign(mod, doc["campaign"])
    try:
        ctx = run_case(mod, campaign, doc["case"])
    finally:
        invoker.cleanup_scratch()
    for v in ctx.violations:
        if (v["property"], v["kind"]) == (doc["property"], doc["kind"]):
            print("replayed: %s" % v["detail"])
            print("VIOLATION property=%s replay=%s" % (doc["property"], path))
            return 1
    print("replay %s: violation (%s, %s) did NOT reproduce" % (path, doc["property"], doc["kind"]))
    return 0


def check_main(prop, tier, seed, nworkers=None):
    t0 = time.time()
    mod = load_prop(prop)
    nworkers = nworkers or int(os.environ.get("VERIF_WORKERS", "16"))
    if nworkers % HASHSEED_CLASSES:
        nworkers = max(HASHSEED_CLASSES, nworkers - nworkers % HASHSEED_CLASSES)
    from sim import invoker
    invoker.sweep_stale_scratch()
    outdir = invoker.new_dir("results")
    known = load_known()
    total = None
    per_campaign = {}
    harness_fail = []
    try:
        for campaign in mod.CAMPAIGNS:
            if campaign.total(tier) <= 0:
                continue
            results, failed = run_campaign(prop, tier, seed, campaign, nworkers, outdir)
            for w, rc, tail in failed:
                harness_fail.append("campaign %s worker %d rc=%s\n%s" % (campaign.name, w, rc, tail))
            agg = merge(results)
            per_campaign[campaign.name] = {"runs": agg["runs"], "invocations": agg["invocations"]}
            if total is None:
                total = agg
            else:
                for key in ("runs", "invocations", "sim_days", "back_jumps"):
                    total[key] += agg[key]
                total["cap_hit"] = total["cap_hit"] or agg["cap_hit"]
                for key in ("counters", "faults", "probes"):
                    for k, v in agg[key].items():
                        total[key][k] = total[key].get(k, 0) + v
                for key in ("states", "transitions", "nontrivial"):
                    total[key] |= agg[key]
                total["violations"].extend(agg["violations"])
                total["samples"].extend(agg["samples"])
                total["harness_errors"].extend(agg["harness_errors"])
    finally:
        invoker.cleanup_scratch()
    if total is None:
        print("HARNESS-ERROR: no campaign ran")
        return 2
    for he in total["harness_errors"]:
        last = [ln for ln in str(he["error"]).strip().splitlines() if ln.strip()][-1:] or [""]
        harness_fail.append("harness error in run %s: [%s] %s" % (he["index"], last[0][:200], he["error"]))

    own = [v for v in total["violations"] if v["property"] == prop]
    others = [v for v in total["violations"] if v["property"] != prop]
    known_hits = {}
    fresh = []
    for v in own:
        entry = match_known(v, known)
        if entry is not None:
            known_hits.setdefault(entry["id"], [entry, 0])[1] += 1
        else:
            fresh.append(v)

    replay_paths = []
    seen_kinds = {}
    for v in fresh:
        key = (v["kind"], v["case"]["_meta"]["campaign"])
        if seen_kinds.get(key, 0) >= 2 or (key, v["case"]["_meta"]["index"]) in seen_kinds:
            continue
        seen_kinds[(key, v["case"]["_meta"]["index"])] = 1
        seen_kinds[key] = seen_kinds.get(key, 0) + 1
        v["case"]["_meta"]["prop"] = prop
        path = write_replay(prop, v)
        env = dict(os.environ)
        env["PYTHONHASHSEED"] = str(v["case"]["_meta"]["hashseed"])
        try:
            subprocess.call([PYTHON, os.path.join(HERE, "check"), "minimise", path], env=env, cwd=HERE,
                            timeout=300, stdout=subprocess.DEVNULL, stderr=subprocess.DEVNULL)
        except subprocess.TimeoutExpired:
            pass
        replay_paths.append((v, path))

    wall = time.time() - t0
    other_counts = {}
    for v in others:
        k = "%s:%s" % (v["property"], v["kind"])
        other_counts[k] = other_counts.get(k, 0) + 1
    coverage = {
        "evaluations": int(total["runs"]),
        "distinct_nontrivial": len(total["nontrivial"]),
        "rule": mod.RULE,
        "samples": total["samples"][:4] or [{"note": "no sample recorded"}],
        "exhaustive": bool(getattr(mod, "EXHAUSTIVE", {}).get(tier, False)) and not total["cap_hit"],
        "runs": int(total["runs"]),
        "invocations": int(total["invocations"]),
        "runs_per_hour": int(total["runs"] / max(wall, 1e-6) * 3600),
        "invocations_per_hour": int(total["invocations"] / max(wall, 1e-6) * 3600),
        "simulated_days_covered": int(total["sim_days"]),
        "clock_backward_jumps": int(total["back_jumps"]),
        "fault_kinds_fired": total["faults"],
        "probes": total["probes"],
        "counters": total["counters"],
        "distinct_states": len(total["states"]),
        "distinct_transitions": len(total["transitions"]),
        "budget_cap_hit": bool(total["cap_hit"]),
        "campaigns": per_campaign,
        "components": getattr(mod, "COMPONENTS", {}),
        "known_findings_hit": {k: n for k, (_e, n) in known_hits.items()},
        "other_property_violations": other_counts,
        "workers": nworkers,
        "hashseed_classes": HASHSEED_CLASSES,
        "run_seeds": "one derived 64-bit seed per run: sha256(VERIF_SEED | campaign | index); seeds_per_hour == runs_per_hour",
        "seeds_per_hour": int(total["runs"] / max(wall, 1e-6) * 3600),
        "sanity_gate": (getattr(mod, "sanity_gate")(tier, total) if getattr(mod, "sanity_gate", None) else []),
    }
    evidence = {
        "property_id": prop,
        "tier": tier,
        "seed": int(seed),
        "level": mod.LEVEL,
        "coverage": coverage,
        "assumptions": list(getattr(mod, "ASSUMPTIONS", [])),
        "wall_s": round(wall, 2),
        "violations": len(fresh),
    }
    if not os.environ.get("VERIF_NO_EVIDENCE"):   # (sensitivity self-test runs against mutated copies: no evidence)
        os.makedirs(os.path.join(HERE, "evidence"), exist_ok=True)
        with open(os.path.join(HERE, "evidence", "%s.json" % prop), "w") as fobj:
            json.dump(evidence, fobj, indent=1, sort_keys=True)

    print("%s %s seed=%d: %d runs, %d invocations, %d distinct non-trivial, %.1fs%s" % (
        prop, tier, seed, total["runs"], total["invocations"], len(total["nontrivial"]), wall,
        " [budget cap hit]" if total["cap_hit"] else ""))
    if other_counts:
        print("other-property observations (not this check's verdict): %s" % json.dumps(other_counts, sort_keys=True))
    for _id, (entry, n) in sorted(known_hits.items()):
        print("KNOWN-FINDING: property=%s %s (hit %d times)" % (prop, entry["what"], n))
    if harness_fail:
        for msg in harness_fail[:5]:
            print("HARNESS-ERROR: %s" % msg)
        if not fresh:
            return 2
        # violations found in the runs that did complete stand on their own (each has a replay file); they are reported
        # below with exit code 1, the harness errors above stay visible
    gate = getattr(mod, "sanity_gate", None)
    if gate is not None:
        problems = gate(tier, total)
        if problems and not os.environ.get("VERIF_MAX_INDEX"):
            for msg in problems:
                print("%s: sanity gate: %s" % ("HARNESS-ERROR" if tier == "thorough" else "warning", msg))
            if tier == "thorough" and not fresh:
                # a rare-condition probe stuck at zero over a whole thorough run means the workload cannot reach it
                return 2
    if fresh:
        for v, path in replay_paths:
            print("violation kind=%s: %s" % (v["kind"], v["detail"][:400]))
            print("VIOLATION property=%s replay=%s" % (prop, os.path.relpath(path, HERE)))
        return 1
    return 0
