"""Seeded generator of abstract projects: version pattern + state, config syntax and settings, files with
templates (literal segments and slots), line-ending regimes, globs and repeated entries."""
import datetime as dt

from ref import pattern as rp, pep440, configsyn, legacy as rl
from gen import patterns as gp

SAFE_AFTER = [" ", '"', "'", ",", ";", "<", ")", " #", "\t", "_all.deb", "_x"]
ASCII_FILLER = "abcdefghijklmnopqrstuvwxyz ABCDEFGHIJKLMNOPQRSTUVWXYZ_-=:;,.!?#%&*()<>/\\\"'`~+[]{}|^$"
NON_ASCII = ["é", "ß", "ø", "中", "文", "😀", "ñ", "Ω", "ж", "́", " ", "​", "„", "“"]
CONTROL = ["\t", "\x0b", "\x0c", "\x1c", "\x1d", "\x1e", "\x85", " ", " ", "\x00", "\x07", "\x1b"]
REGEXY = ["(?P<x>.*)", "[a-z]+", "\\d+", "^$", "a|b", "x{2,3}", "(?:", ".*?", "\\[", "$1"]
WORDS = ["version", "release", "build", "name", "import os", "def main():", "return", "# comment", "title", "====",
         "license: MIT", "copyright", "see docs", "TODO", "x = y", "   indented", "", "", "end"]

README_PEP_PATTERNS = ["YYYY.BUILD[PYTAGNUM]", "YY.BUILD[PYTAGNUM]", "YYYY.WW.BUILD[PYTAGNUM]", "MAJOR.MINOR.PATCH[PYTAGNUM]",
                       "YYYY.MM.BUILD[PYTAGNUM]", "YYYY.MM.INC0[PYTAGNUM]", "YYYY.BUILD"]

PATHS_SIMPLE = ["a.txt", "src/pkg/__init__.py", "docs/conf.py", "README.md", "lib/mod/version.txt", "CHANGES.rst",
                "setup.py"]
PATHS_ODD = ["sub dir/notes file.txt", "données/é.txt", "x'y.txt", "we ird/na,me.md"]


def filler(rng, mode, digits=True, maxlen=24):
    """Random text without line terminators and without '@'."""
    if mode == "plain":
        w = rng.choice(WORDS)
        if digits and rng.random() < 0.2:
            w += " %d" % rng.randint(0, 9999)
        return w
    n = rng.randint(0, maxlen)
    out = []
    while len(out) < n:
        r = rng.random()
        if r < 0.62:
            out.append(rng.choice(ASCII_FILLER))
        elif r < 0.72 and digits:
            out.append(rng.choice("0123456789"))
        elif r < 0.84:
            out.append(rng.choice(NON_ASCII))
        elif r < 0.92:
            out.append(rng.choice(CONTROL))
        else:
            item = rng.choice(REGEXY)
            if digits or not any(ch.isdigit() for ch in item):
                out.append(item)
    return "".join(out)


def unescape(lit):
    """Pattern literal -> the text it stands for in a file (escaped brackets)."""
    return lit.replace("\\[", "[").replace("\\]", "]")


def _alt_spelling(rng, part):
    alts = {"MM": "0M", "0M": "MM", "DD": "0D", "0D": "DD", "YYYY": "0Y", "JJJ": "00J", "00J": "JJJ",
            "WW": "0W", "0W": "WW", "UU": "0U", "0U": "UU", "VV": "0V", "0V": "VV", "GGGG": "0G"}
    if part in alts and rng.random() < 0.4:
        return alts[part]
    return part


def gen_search_patterns(rng, tree, vpattern, pep_ok, count, first_marker, allow_bare, ini):
    """-> list of dicts {raw, prefix, region, suffix}"""
    names = [n for n in rp.parts_of(tree) if n not in ("TAG", "PYTAG", "NUM")]
    is_legacy = rl.is_legacy(vpattern)
    if is_legacy:
        names = ["{%s}" % n[2:] for n in names if rp.PARTS[n][0] not in ("tag",)]
        fields = set(rp.fields_of(tree))
        if "year_y" in fields and ("doy" in fields or {"month", "dom"} <= fields):
            # the version names a day: file patterns may use calendar parts the version pattern itself does not spell out
            names += [d for d in ("{quarter}", "{month}", "{dom}", "{doy}") if rp.PARTS["L." + d[1:-1]][0] not in fields] * 2
    out = []
    marker_no = first_marker
    for _ in range(count):
        m = "@k%d" % marker_no
        marker_no += 1
        shape = rng.choice(["A", "A", "B", "B", "C", "C", "D", "E", "E", "G", "H", "Q", "K"])
        if shape in ("C", "K") and not pep_ok:
            shape = "A"
        if shape == "K" and not pep_friendly(vpattern):
            shape = "A"      # F13 territory (derived PEP 440 pattern of non-dot separators), C15's LIFE reaches it through shape C
        if is_legacy and shape in ("G", "Q", "K"):
            shape = "B"
        if not is_legacy and "TAG" in rp.parts_of(tree) and rng.random() < 0.12:
            shape = "T"
        elif not ini and not is_legacy and rng.random() < 0.05:
            shape = "W"
        elif rng.random() < 0.06:
            shape = "S"
        more = []
        extra = {}
        if shape == "A":
            prefix, region, suffix = m + ": ", "{version}", ""
        elif shape == "B":
            q = rng.choice(['"', "'"])
            prefix, region, suffix = "%s = %s" % (m, q), "{version}", q
        elif shape == "C":
            style = rng.choice([("%s (" % m, ")"), ("%s pep=" % m, ""), ('%s "' % m, '"')])
            prefix, region, suffix = style[0], "{pep440_version}", style[1]
        elif shape == "D":
            prefix, region, suffix = m + " v=", vpattern, rng.choice(["", ";", '"'])
        elif shape == "K":
            # one pattern that shows the version twice, in both spellings (README: badge / install lines)
            first, second = rng.choice([("{version}", "{pep440_version}"), ("{pep440_version}", "{version}"),
                                        ("{version}", "{version}")])
            prefix, region, suffix = m + " pkg ", first, ")"
            more = [(rng.choice([" (pip install pkg==", " / tag ", " (see "]), second)]
        elif shape == "Q":
            # a pattern that itself begins and ends with a quote character (the quotes are pattern text in every syntax)
            q = rng.choice(["'", '"'])
            prefix, region, suffix = "%s%s v " % (q, m), "{version}", q
        elif shape == "H":
            # comment-like and separator characters *inside* a pattern (a value must not be cut at ' #' or ' ;')
            prefix, region = m + " = ", "{version}"
            suffix = rng.choice([" # latest", " ; stable", " #tag; x", ' # "quoted"'])
        elif shape == "T":
            # the release channel alone ("channel: beta"): a pattern, a marker and a line without any digit
            m = "@kt" + chr(97 + marker_no % 26) + chr(97 + (marker_no // 26) % 26)
            prefix, region, suffix = m + " channel: ", "TAG", rng.choice(["", " (pre-release)"])
            extra = {"no_digits": True}
        elif shape == "W":
            # blanks at both ends are pattern text in TOML (INI cannot say this): "lib@k3 w 1.2.3;" is not an occurrence
            prefix, region, suffix = " %s w " % m, "{version}", " "
            extra = {"decoy": "lib%s w " % m}
        elif shape == "S":
            # the version inside a file name: word characters right after it, also when its optional parts are left out
            prefix, region, suffix = m + " pkg_", "{version}", rng.choice(["_all.deb", "rev", "_x", "x"])
        elif shape == "G":
            # literal text with characters that must be matched literally
            lit = rng.choice(["(c)", "v.", "a+b", "what?", "x*", "f(x)", "\\[tag\\]", "<->", "::", "100%", "%(name)s", "sem%20ver", "%%",
                              "{0}", "({0})", "{1,3}", "a{2}", "{}", "{name}", "a, b", "(x, y),"])
            prefix, region, suffix = "%s %s " % (m, lit), "{version}", rng.choice(["", " " + lit])
        else:
            if not names:
                prefix, region, suffix = m + ": ", "{version}", ""
            else:
                p1 = _alt_spelling(rng, rng.choice(names))
                region = p1
                twin = {"MM": "0M", "0M": "MM", "DD": "0D", "0D": "DD", "JJJ": "00J", "00J": "JJJ", "WW": "0W", "0W": "WW",
                        "UU": "0U", "0U": "UU", "VV": "0V", "0V": "VV"}.get(p1)
                if twin and not is_legacy and rng.random() < 0.25:
                    # the same field in its two spellings within one pattern ("2024-03 (3/2024)")
                    region = p1 + rng.choice(["/", " of ", " - "]) + twin
                elif len(names) > 1 and rng.random() < 0.5 and not is_legacy:
                    cand = [n for n in names if rp.PARTS[n][0] != rp.PARTS[p1][0]]
                    if cand:
                        p2 = _alt_spelling(rng, rng.choice(cand))
                        region = p1 + rng.choice(["/", ".", "-", " of "]) + p2
                style = rng.choice([("%s (c) " % m, " corp"), ("%s docs/" % m, "/index"), ("%s <" % m, ">"),
                                    ("%s stamp " % m, "")])
                prefix, suffix = style
        raw = prefix + region + "".join(mid + reg for mid, reg in more) + suffix
        if ini and not configsyn.ini_expressible_pattern(raw):
            prefix, region, suffix, more = m + ": ", "{version}", "", []
            raw = prefix + region + suffix
        out.append(dict({"raw": raw, "prefix": prefix, "region": region, "suffix": suffix, "more": more}, **extra))
    return out


def gen_file(rng, path, pats, mode, regime, digits_ok=True):
    """-> file dict with template lines"""
    seps = {"lf": ["\n"], "crlf": ["\r\n"], "cr": ["\r"], "mixed": ["\n", "\r\n", "\r"]}[regime]
    occ = []
    for idx, _p in enumerate(pats):
        for _ in range(rng.choice([1, 1, 1, 2, 3])):
            occ.append(idx)
    rng.shuffle(occ)
    lines = []

    def add_filler_lines(n):
        for _ in range(n):
            if digits_ok and rng.random() < 0.05:
                # text that looks like part of a diff (a changelog quoting one): content, never position information
                k = rng.choice([1, 3, 12, 63, 998])
                lines.append([rng.choice(["@@ -%d,7 +%d,7 @@" % (k, k), "@@ -%d +%d @@ def main():" % (k, k + 1),
                                          "--- a/setup.py", "+++ b/setup.py", "-version = 1", "+version = 2"])])
                continue
            lines.append([filler(rng, mode, digits_ok, 40)])

    add_filler_lines(rng.randint(0, 3))
    i = 0
    shared = 0
    while i < len(occ):
        idx = occ[i]
        p = pats[idx]
        segs = []
        no_digits = p.get("no_digits") and not (i + 1 < len(occ) and occ[i + 1] != idx)
        before = filler(rng, mode, digits_ok and not no_digits, 12)
        if before and rng.random() < 0.7:
            segs.append(before + rng.choice([" ", "\t", "(", '"']))
        segs.append(unescape(p["prefix"]))
        segs.append({"slot": p["region"], "pat": idx})
        for mid, reg in p.get("more", []):
            segs.append(unescape(mid))
            segs.append({"slot": reg, "pat": idx})
        after_suffix = unescape(p["suffix"])
        # a second, different pattern on the same line
        if i + 1 < len(occ) and occ[i + 1] != idx and rng.random() < 0.3:
            p2 = pats[occ[i + 1]]
            mid = after_suffix + rng.choice(SAFE_AFTER) + filler(rng, "plain", False) + " "
            segs.append(mid)
            segs.append(unescape(p2["prefix"]))
            segs.append({"slot": p2["region"], "pat": occ[i + 1]})
            for mid, reg in p2.get("more", []):
                segs.append(unescape(mid))
                segs.append({"slot": reg, "pat": occ[i + 1]})
            after_suffix = unescape(p2["suffix"])
            i += 1
            shared += 1
        tail = after_suffix
        if no_digits:
            if rng.random() < 0.6:
                tail += rng.choice([" ", ",", ";", ")"]) + filler(rng, mode, False, 12)
        elif rng.random() < 0.6:
            tail += rng.choice(SAFE_AFTER) + filler(rng, mode, digits_ok, 12)
        if tail:
            segs.append(tail)
        lines.append(segs)
        add_filler_lines(rng.randint(0, 2))
        i += 1
    final_newline = rng.random() < 0.7
    out_lines = []
    for n, segs in enumerate(lines):
        last = n == len(lines) - 1
        end = "" if (last and not final_newline) else rng.choice(seps)
        out_lines.append({"segs": segs, "end": end})
    bom = mode == "bytes" and rng.random() < 0.1
    if bom:
        first = out_lines[0]["segs"]
        if first and isinstance(first[0], str):
            first[0] = "﻿" + first[0]
        else:
            first.insert(0, "﻿")
    return {"path": path, "patterns": [p["raw"] for p in pats], "lines": out_lines, "regime": regime,
            "shared_lines": shared}


def gen_overlap_file(rng, path, regime, marker=None):
    """A file with the two bare patterns {version}, {pep440_version} and several occurrences per line.
    With a marker: a first pattern `@kN pkg {version} (see {version})` whose matches enclose two matches of the bare
    {version} pattern each (and matches of the second bare pattern inside those)."""
    sep = {"lf": "\n", "crlf": "\r\n", "cr": "\r"}[regime]
    joins = [" and ", " (pip install pkg==", "; the docs of ", ", see ", " / "]
    heads = ["Release ", "Install: pkg==", "* ", "latest = ", "(", ""]
    tails = ["", " is out.", ")", " are listed below.", ";"]
    kinds = ["{version}", "{pep440_version}"]
    outer = None
    if marker is not None:
        outer = "%s pkg {version} (see {version})" % marker
    rows = [["{version}"], ["{pep440_version}"]]
    for _ in range(rng.randint(1, 4)):
        rows.append([rng.choice(kinds) for _ in range(rng.choice([1, 2, 2, 3]))])
    if rng.random() < 0.7:
        rows.append(["{version}", "{version}"] + ([rng.choice(kinds)] if rng.random() < 0.4 else []))
    rng.shuffle(rows)
    lines = []
    if rng.random() < 0.6:
        lines.append({"segs": [filler(rng, "plain", False)], "end": sep})
    for row in rows:
        segs = [filler(rng, "plain", False) + " " if rng.random() < 0.5 else ""]
        head = rng.choice(heads)
        if row[0] == "{pep440_version}" and head == "":
            head = "= "
        segs[0] += head
        for i, region in enumerate(row):
            if i:
                segs.append(rng.choice(joins))
            segs.append({"slot": region, "pat": kinds.index(region)})
        tail = rng.choice(tails)
        if tail:
            segs.append(tail)
        segs = [x for x in segs if x != ""]
        lines.append({"segs": segs, "end": sep})
        if rng.random() < 0.3:
            lines.append({"segs": [filler(rng, "plain", False)], "end": sep})
    patterns = list(kinds)
    if outer is not None:
        # pattern indices of the slots written so far move up by one
        for ln in lines:
            for sg in ln["segs"]:
                if not isinstance(sg, str):
                    sg["pat"] += 1
        patterns = [outer] + patterns
        for _ in range(rng.choice([1, 1, 2])):
            row = {"segs": [filler(rng, "plain", False) + " " + marker + " pkg ", {"slot": "{version}", "pat": 0}, " (see ",
                            {"slot": "{version}", "pat": 0}, ")" + rng.choice(["", " now", ";"])], "end": sep}
            lines.insert(rng.randint(0, len(lines)), row)
    if rng.random() < 0.3:
        lines[-1]["end"] = ""
    return {"path": path, "patterns": patterns, "lines": lines, "regime": regime, "shared_lines": sum(1 for r in rows if len(r) > 1),
            "bare": True, "overlap": True, "nested": outer is not None}


def config_glob_key(syntax, kind="glob"):
    """A second way of naming the config file in file_patterns: a glob that matches exactly it (and no other generated
    file), or a legal non-normalised spelling of its path."""
    if kind == "dot":
        return "./" + syntax
    return syntax[:-1] + "?"


def pep_friendly(vpattern):
    """True when the version pattern separates its parts with '.' only (apart from an optional leading 'v' and
    the dash in front of a TAG).  For other separators bumpver's derived PEP 440 pattern drops the separator, which
    is C15's known finding; every other campaign steers around it."""
    p = vpattern[1:] if vpattern.startswith("v") else vpattern
    p = p.replace("-TAG", "TAG")
    return all(ch in "ABCDEFGHIJKLMNOPQRSTUVWXYZ0123456789.[]" for ch in p)


def gen_project(rng, mode="plain", syntaxes=None, allow_mixed=True, max_files=4, family=None, vcs="maybe",
                allow_odd_paths=True, allow_glob=True, pep_any=False, force_pep=False, zero_bid=False, legacy=False, clock_patterns=True,
                allow_symlinks=True, invalid_utf8=False, twin_pair=False, wide_glob=False):
    while True:
        if legacy:
            pat = {"pattern": rng.choice(gp.LEGACY_PATTERNS), "family": "legacy", "unit": None}
            tree = rl.tokenize(pat["pattern"])
        else:
            pat = gp.gen_pattern(rng, family)
            if force_pep and family is None and rng.random() < 0.1:
                # the README's "PEP440: yes" examples: patterns that already are in normalised form, apart from BUILD
                pat = {"pattern": rng.choice(README_PEP_PATTERNS), "family": "readme", "unit": None}
            tree = rp.tokenize(pat["pattern"])
        if rp.parts_of(tree):
            break
    vpattern = pat["pattern"]
    epoch = gp.gen_epoch(rng, gp.has_two_digit_year(tree))
    state = gp.gen_state(rng, tree, epoch)
    if pat.get("family") == "readme" and "bid" in state and rng.random() < 0.4:
        state["bid"] = rng.choice(["0033", "01001", "001999", "0999", "0001", "09998"])
    if zero_bid and "bid" in state and "BLD" not in rp.parts_of(tree) and rng.random() < 0.15:
        state["bid"] = rng.choice(["0", "00", "0000"])
    vtext = rp.render(tree, state)
    probe = dict(state)
    if "tag" in probe:
        probe["tag"] = "beta"
    pep_ok = pep440.is_pep440(vtext) and pep440.is_pep440(rp.render(tree, probe)) and vpattern[:1] in "vYG0MQ" \
        and not vpattern.startswith("ver") and (pep_any or pep_friendly(vpattern))
    if legacy:
        # {pep440_version} is only defined for these legacy version patterns (README, legacy section)
        pep_ok = vpattern in ("{pycalver}", "{semver}", "v{year}{month}{build}{release}", "{year}{month}{build}{release}",
                              "v{year}{build}{release}", "{year}{build}{release}")
    syntax = rng.choice(syntaxes or ["bumpver.toml", "bumpver.toml", ".bumpver.toml", "pyproject.toml", "setup.cfg",
                                     "setup.cfg"])
    ini = not configsyn.is_toml(syntax)
    nfiles = rng.randint(1, max_files)
    pool = list(PATHS_SIMPLE)
    if allow_odd_paths and not ini:
        pool += PATHS_ODD
    rng.shuffle(pool)
    paths = pool[:nfiles]
    files = []
    marker = 1
    for path in paths:
        bare = rng.random() < 0.06
        regime = rng.choice(["lf", "lf", "lf", "crlf", "crlf", "cr"] + (["mixed"] if allow_mixed else []))
        if bare:
            pats = [{"raw": "{version}", "prefix": "", "region": "{version}", "suffix": ""}]
            f = gen_file(rng, path, pats, "plain" if mode == "plain" else mode, regime, digits_ok=False)
            f["bare"] = True
        else:
            k = rng.choice([1, 1, 2, 2, 3, 4])
            pats = gen_search_patterns(rng, tree, vpattern, pep_ok, k, marker, False, ini)
            marker += k
            if force_pep and pep_ok and not any(p["region"] == "{pep440_version}" for p in pats):
                m = "@k%d" % marker
                marker += 1
                pats.append({"raw": m + " pep={pep440_version}", "prefix": m + " pep=", "region": "{pep440_version}",
                             "suffix": ""})
            f = gen_file(rng, path, pats, mode, regime)
            for p_ in pats:
                if p_.get("decoy"):
                    sep = {"lf": "\n", "crlf": "\r\n", "cr": "\r", "mixed": "\n"}[regime]
                    if f["lines"] and f["lines"][-1]["end"] == "":
                        f["lines"][-1]["end"] = sep
                    f["lines"].append({"segs": [p_["decoy"] + vtext + ";"], "end": sep})
                    f["blank_delimited"] = True
        files.append(f)
    # README style: the bare patterns {version} and {pep440_version} for one file; every {version} text also contains a
    # match of the second pattern, which the first one's match must shadow (documented: earlier patterns win)
    # (a 'dev' tag puts the text "v0" into the PEP 440 form "1.2.dev0", which `vMAJOR...` would match: only patterns
    # without a tag, or with a four digit year right after the "v", are unambiguous)
    if pep_ok and not legacy and vpattern.startswith("v") and pep_friendly(vpattern) and rng.random() < 0.14 and \
            (vpattern[1:5] in ("YYYY", "GGGG") or not (set(rp.fields_of(tree)) & {"tag", "pytag"})):
        opath = rng.choice([p for p in ["docs/overview.md", "USAGE.md", "site/install.txt"] if p not in paths])
        nest = None
        if rng.random() < 0.5:
            nest = "@k%d" % marker
            marker += 1
        files.append(gen_overlap_file(rng, opath, rng.choice(["lf", "lf", "crlf", "cr"]), nest))
    # a group of files reached only through one recursive glob, at several depths and through dot-directories
    if allow_glob and not ini and rng.random() < 0.15:
        gpaths = rng.sample(["top.ver", "src/pkg/sub/deep/x.ver", ".hidden/y.ver", "src/.dot.ver", "src/one.ver"], rng.randint(2, 4))
        gpats = gen_search_patterns(rng, tree, vpattern, pep_ok, rng.choice([1, 2]), marker, False, ini)
        marker += len(gpats)
        group = []
        wide = wide_glob and rng.random() < 0.35
        if wide:
            # a monorepo: one glob reaches some eighty files whose names add up to far more than any one command line
            # should be trusted with
            gpaths = gpaths + ["packages/component_%03d_%s/version_information_%s.ver" % (i, "x" * 36, "y" * 24)
                               for i in range(rng.randint(70, 90))]
        for gp_ in gpaths:
            gf = gen_file(rng, gp_, gpats, mode, rng.choice(["lf", "crlf"]))
            gf["glob_group"] = True
            gf["wide_group"] = wide
            gf["group_patterns"] = [p["raw"] for p in gpats]
            files.append(gf)
            group.append(gf)
        if rng.random() < 0.4:
            # one file of the group is named again in an entry of its own with a further pattern; its siblings hold the very
            # same text, which no pattern configured for *them* matches and which therefore must stay as it is
            m = "@k%d" % marker
            marker += 1
            chosen = rng.choice(group)
            raw = m + " extra {version}"
            chosen["extra_entry"] = [raw]
            idx = len(chosen["patterns"])
            chosen["patterns"] = chosen["patterns"] + [raw]
            for gf in group:
                sep = {"lf": "\n", "crlf": "\r\n"}[gf["regime"]]
                if gf["lines"] and gf["lines"][-1]["end"] == "":
                    gf["lines"][-1]["end"] = sep
                if gf is chosen:
                    gf["lines"].append({"segs": [m + " extra ", {"slot": "{version}", "pat": idx}], "end": sep})
                else:
                    gf["lines"].append({"segs": [m + " extra " + vtext + " (sibling)"], "end": sep})
    # README-style calendar patterns next to a version pattern that carries no year ("Copyright (c) 2018-YYYY")
    clock_slots = False
    if clock_patterns and not legacy and not (set(rp.fields_of(tree)) & {"year_y", "year_g"}) and files and rng.random() < 0.4:
        f = rng.choice([x for x in files if not x.get("bare") and not x.get("glob_group")] or files)
        if not f.get("bare") and not f.get("glob_group"):
            m = "@k%d" % marker
            marker += 1
            style = rng.choice([("%s (c) 2018-" % m, "YYYY", " corp"), ("%s built " % m, "YYYY-0M-0D", ""),
                                ("%s (c) " % m, "YYYY", ";")])
            ypat = {"raw": style[0] + style[1] + style[2], "prefix": style[0], "region": style[1], "suffix": style[2]}
            if not ini or configsyn.ini_expressible_pattern(ypat["raw"]):
                idx = len(f["patterns"])
                f["patterns"].append(ypat["raw"])
                end = f["lines"][-1]["end"] if f["lines"] else "\n"
                sep = {"lf": "\n", "crlf": "\r\n", "cr": "\r", "mixed": "\n"}[f["regime"]]
                if f["lines"] and f["lines"][-1]["end"] == "":
                    f["lines"][-1]["end"] = sep
                f["lines"].append({"segs": [filler(rng, "plain", False) + " ", ypat["prefix"], {"slot": ypat["region"], "pat": idx},
                                            ypat["suffix"]], "end": end})
                clock_slots = True
    # the same literal context in two files, around different patterns ("version = MAJOR.MINOR" in docs/conf.py,
    # "version = {pep440_version}" in pyproject.toml): what one file's text is replaced with says nothing about the other's
    plain_files = [x for x in files if not x.get("bare") and not x.get("glob_group")]
    if len(plain_files) >= 2 and not legacy and rng.random() < 0.25:
        fa, fb = rng.sample(plain_files, 2)
        twin_of = {"{version}": "{pep440_version}" if pep_ok else None, "{pep440_version}": "{version}",
                   "MM": "0M", "0M": "MM", "DD": "0D", "0D": "DD", "WW": "0W", "0W": "WW", "UU": "0U", "0U": "UU",
                   "VV": "0V", "0V": "VV", "JJJ": "00J", "00J": "JJJ"}
        cands = []
        for raw in fa["patterns"]:
            for ln in fa["lines"]:
                segs = ln["segs"]
                for i, sg in enumerate(segs):
                    if isinstance(sg, str) or twin_of.get(sg["slot"]) is None or fa["patterns"][sg["pat"]] != raw:
                        continue
                    if sum(1 for x in segs if not isinstance(x, str) and x["pat"] == sg["pat"]) != 1:
                        continue
                    region = sg["slot"]
                    if raw.count(region) == 1:
                        cands.append((raw, region))
        cands = sorted(set(cands))
        if cands:
            raw, region = rng.choice(cands)
            pre, suf = raw.split(region)
            region2 = twin_of[region]
            raw2 = pre + region2 + suf
            if raw2 not in fb["patterns"] and (not ini or configsyn.ini_expressible_pattern(raw2)):
                idx = len(fb["patterns"])
                fb["patterns"].append(raw2)
                sep = {"lf": "\n", "crlf": "\r\n", "cr": "\r", "mixed": "\n"}[fb["regime"]]
                end = fb["lines"][-1]["end"] if fb["lines"] else "\n"
                if fb["lines"] and fb["lines"][-1]["end"] == "":
                    fb["lines"][-1]["end"] = sep
                fb["lines"].append({"segs": [unescape(pre), {"slot": region2, "pat": idx}, unescape(suf)], "end": end})
                fb["twin_context"] = True
    if rng.random() < 0.015:
        # a generated / minified file: one occurrence sits on a line of more than 128 KiB
        cands = [(f, ln) for f in files if not f.get("overlap") for ln in f["lines"] if any(not isinstance(sg, str) for sg in ln["segs"])]
        if cands:
            f, ln = rng.choice(cands)
            # (a bare `{version}` pattern has no marker: its file must not hold digits that are not a version)
            item = "oxfe, " if f.get("bare") else "0xfe, "
            ln["segs"] = ["x = [" + item * rng.choice([22000, 30000, 45000]) + "]; "] + ln["segs"]
            f["huge_line"] = True
    has_twin_pair = False
    if twin_pair and pep_ok and not legacy and pep_friendly(vpattern) and rng.random() < 0.12:
        # the pair `bumpver init` writes for setup.py: the same literal context around {version} and around {pep440_version}
        # (in this order), one line for each.  While the two spellings differ each pattern finds its own line; once they
        # coincide (a final release of a prefix-less pattern) the second pattern is shadowed on both lines and bumpver
        # refuses the configuration ("possible greedy pattern")
        cand = [x for x in files if not x.get("bare") and not x.get("glob_group") and not x.get("twin_context")]
        if cand:
            f = rng.choice(cand)
            m = "@k%d" % marker
            marker += 1
            pre, suf = m + ' = "', '"'
            sep = {"lf": "\n", "crlf": "\r\n", "cr": "\r", "mixed": "\n"}[f["regime"]]
            if f["lines"] and f["lines"][-1]["end"] == "":
                f["lines"][-1]["end"] = sep
            i1, i2 = len(f["patterns"]), len(f["patterns"]) + 1
            f["patterns"] = f["patterns"] + [pre + "{version}" + suf, pre + "{pep440_version}" + suf]
            f["lines"].append({"segs": [pre, {"slot": "{version}", "pat": i1}, suf], "end": sep})
            f["lines"].append({"segs": [pre, {"slot": "{pep440_version}", "pat": i2}, suf], "end": sep})
            has_twin_pair = True
    bad_bytes = False
    if invalid_utf8 and rng.random() < 0.12:
        # a byte that is not valid UTF-8 (a latin-1 name in a licence header), several lines away from every occurrence;
        # bumpver refuses such a file - dry run and real run alike.  Written here as a lone surrogate (surrogateescape).
        f = rng.choice([x for x in files if not x.get("overlap")])
        sep = {"lf": "\n", "crlf": "\r\n", "cr": "\r", "mixed": "\n"}[f["regime"]]
        head = [{"segs": ["(c) Jos\udce9 M\udcfcller"], "end": sep}] + [{"segs": [filler(rng, "plain", False)], "end": sep} for _ in range(5)]
        f["lines"] = head + f["lines"]
        bad_bytes = True
    # config entries: explicit path, a glob that matches exactly this file, or the patterns split over two entries
    entries = []
    if any(f.get("glob_group") for f in files):
        entries.append(["**/*.ver", [f for f in files if f.get("glob_group")][0]["group_patterns"]])
    for f in files:
        if f.get("glob_group"):
            if f.get("extra_entry"):
                entries.append([f["path"], f["extra_entry"]])
            continue
        path = f["path"]
        r = rng.random()
        key = path
        if allow_glob and r < 0.15 and "/" in path and all(ch not in path for ch in "[]*?'\" "):
            head, tail = path.rsplit("/", 1)
            key = head + "/" + tail[0] + "*" + tail[-3:] if len(tail) > 4 else path
            # make sure no other generated path matches this glob
            import fnmatch
            if sum(1 for g in files if fnmatch.fnmatch(g["path"], key)) != 1:
                key = path
        if allow_glob and r > 0.9 and len(f["patterns"]) >= 2 and all(ch not in path for ch in "[]*?") and not f.get("overlap"):
            cut = rng.randint(1, len(f["patterns"]) - 1)
            tail = path.rsplit("/", 1)[-1]
            gkey = path[:len(path) - len(tail)] + tail[0] + "*" + tail[1:] if len(tail) > 1 else path
            import fnmatch
            if gkey != path and sum(1 for g in files if fnmatch.fnmatch(g["path"], gkey)) == 1 and \
                    (not ini or configsyn.ini_expressible_key(gkey)):
                entries.append([path, f["patterns"][:cut]])
                entries.append([gkey, f["patterns"][cut:]])
                f["repeated_entry"] = True
                continue
        if key != path:
            f["globbed"] = True
        elif allow_glob and rng.random() < 0.12 and all(ch not in path for ch in "[]*?"):
            # a legal but non-normalised spelling of the same path
            key = rng.choice(["./" + path, path.replace("/", "//", 1) if "/" in path else "./" + path,
                              path.replace("/", "/./", 1) if "/" in path else "./" + path])
            f["respelled"] = True
        entries.append([key, f["patterns"]])
    explicit_self = rng.random() < 0.5
    rng.shuffle(entries)
    if explicit_self:
        entries.insert(rng.randint(0, len(entries)), [syntax, ['current_version = "{version}"']])
    cfg_glob = None
    if allow_glob and not explicit_self and rng.random() < 0.12:
        # a glob entry that (also) covers the config file itself; its pattern occurs in a comment line of the config
        m = "@k%d" % marker
        marker += 1
        kind = rng.choice(["glob", "dot"])
        cfg_glob = {"key": config_glob_key(syntax, kind), "kind": kind, "raw": "%s: {version}" % m, "prefix": "# %s: " % m}
        entries.insert(rng.randint(0, len(entries)), [cfg_glob["key"], [cfg_glob["raw"]]])
    settings = {"commit": False, "tag": False, "push": False}
    if vcs == "fake" or (vcs == "maybe" and rng.random() < 0.4):
        settings = {"commit": True, "tag": rng.random() < 0.7, "push": rng.random() < 0.5}
        vcs_spec = {"personality": "git", "remote": rng.random() < 0.8}
    else:
        vcs_spec = None
    if vcs_spec is None and allow_symlinks and rng.random() < 0.12:
        # a configured file that is a symbolic link (README.md -> docs/README.md): it is read and written through the link,
        # the link stays a link.  (Only without VCS: the changed target is not a configured path and would stay uncommitted.)
        cands = [x for x in files if not x.get("overlap")]
        grp = [x for x in cands if x.get("glob_group")]
        f = rng.choice(grp) if (grp and rng.random() < 0.6) else rng.choice(cands)
        f["symlink_to"] = "realfiles/" + f["path"].replace("/", "_").replace(" ", "_") + ".real"
    style = {}
    if ini:
        style = {"quote": rng.choice(['"', '"', "'", ""]), "bool_true": rng.choice(configsyn.INI_TRUE),
                 "bool_false": rng.choice(configsyn.INI_FALSE)}
        style["version_quote"] = '"' if explicit_self else style["quote"]
        if syntax == "setup.cfg" and rng.random() < 0.5:
            style["preamble"] = "[metadata]\nname = demo\n"
    else:
        style = {"toml_literal": rng.random() < 0.5}
        if syntax == "pyproject.toml" and rng.random() < 0.7:
            style["preamble"] = '[project]\nname = "demo"\n'
    if syntax in ("setup.cfg", "pyproject.toml") and rng.random() < 0.15:
        # a file shared with bumpversion / bump2version: their section comes first and has a current_version line of its own
        # (quoted differently from bumpver's line, so that no configured pattern matches it): it is not bumpver's to change
        if ini:
            own_q = style["version_quote"]
            fq = "" if own_q == '"' else '"'
            foreign = "[bumpversion]\ncurrent_version = %s%s%s\ncommit = True\n" % (fq, vtext, fq)
        else:
            foreign = "[tool.bumpversion]\ncurrent_version = '%s'\n" % vtext
        style["preamble"] = style.get("preamble", "") + foreign
        style["foreign_section"] = True
    cfg = {"current_version": vtext, "version_pattern": vpattern, "file_patterns": entries}
    for k, v in settings.items():
        if v or rng.random() < 0.5:
            cfg[k] = v
    if rng.random() < 0.4:
        cfg["commit_message"] = rng.choice(["bump {old_version} -> {new_version}", "bump {old_version} -> {new_version}",
                                            "release {new_version} (100% tested)"])
    if rng.random() < 0.3:
        cfg["tag_message"] = rng.choice(["rel {new_version}", ""])
    cfg_regime = rng.choice(["lf", "lf", "lf", "lf", "crlf"])
    extra = {}
    for _ in range(rng.randint(0, 2)):
        name = rng.choice(["notes.txt", "src/pkg/other.py", "LICENSE", "data.bin"])
        extra[name] = (filler(rng, mode, True, 30) + "\n" + vtext + "\n").encode("utf-8")
    return {"version_pattern": vpattern, "state": state, "epoch": epoch.isoformat(), "syntax": syntax, "cfg_glob": cfg_glob,
            "clock_slots": clock_slots, "invalid_utf8": bad_bytes, "twin_pair": has_twin_pair,
            "style": style, "cfg": cfg, "cfg_regime": cfg_regime, "files": files, "extra": {k: v.decode("utf-8") for k, v in extra.items()},
            "vcs": vcs_spec, "pep_ok": pep_ok, "unit": pat["unit"], "family": pat["family"]}
