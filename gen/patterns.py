"""Seeded generators for version patterns of the documented language, version states and flag sets."""
import datetime as dt

from ref import pattern as rp

SEPS = [".", ".", ".", ".", "-", "_", "+"]
PREFIXES = ["", "", "", "v", "v", "rel-", "ver"]
TAG_SUFFIXES = ["", "", "", "[PYTAGNUM]", "[PYTAGNUM]", "[-TAG]", "[-TAG]", "[-TAGNUM]", "-TAG", "[PYTAG[NUM]]", "[-TAG[NUM]]",
                "[.PYTAGNUM]", "[.TAG]", "[.TAG[NUM]]", "[-TAG[.NUM]]", "[-TAG.NUM]", "[.TAGNUM]", ".TAG"]
FIXED_WIDTH = {"YYYY", "0Y", "GGGG", "0G", "0M", "0D", "00J", "0W", "0U", "0V", "Q"}

YEAR_Y = ["YYYY", "YYYY", "YYYY", "YY", "0Y"]
YEAR_G = ["GGGG", "GGGG", "GG", "0G"]


def _sep(rng, left_fixed=False, allow_letter=None):
    r = rng.random()
    if left_fixed and r < 0.15:
        return ""
    if allow_letter and r < 0.30:
        return allow_letter
    return rng.choice(SEPS)


def gen_calendar_core(rng, coherent=True, reorder=False):
    """-> (pattern text, finest calendar unit)"""
    kind = rng.choice(["y", "ym", "ym", "ymd", "ymd", "yj", "yq", "yw", "yu", "gv", "gv"])
    if not coherent:
        kind = rng.choice(["yv", "gw", "gu"])
    if reorder:
        # calendar parts not written most-significant-first (European dates, `MM.YYYY`): legal patterns whose text order
        # is not the chronological order
        year = rng.choice(["YYYY", "YYYY", "0Y"])
        m = rng.choice(["MM", "0M"])
        d = rng.choice(["DD", "0D"])
        shape = rng.choice(["dmy", "dmy", "mdy", "my", "dym", "wy"])
        if shape == "my":
            return m + _sep(rng, m in FIXED_WIDTH) + year, "month"
        if shape == "wy":
            w = rng.choice(["WW", "0W"])
            return w + _sep(rng, w in FIXED_WIDTH, "w") + year, "week"
        order = {"dmy": [d, m, year], "mdy": [m, d, year], "dym": [d, year, m]}[shape]
        text = order[0]
        for prev, part in zip(order, order[1:]):
            text += _sep(rng, prev in FIXED_WIDTH) + part
        return text, "day"
    if kind in ("gv", "gw", "gu"):
        year = rng.choice(YEAR_G)
    else:
        year = rng.choice(YEAR_Y)
    fixed = year in FIXED_WIDTH
    if kind == "y":
        return year, "year"
    if kind == "ym":
        return year + _sep(rng, fixed) + rng.choice(["MM", "0M"]), "month"
    if kind == "ymd":
        m = rng.choice(["MM", "0M"])
        d = rng.choice(["DD", "0D"])
        return year + _sep(rng, fixed) + m + _sep(rng, m in FIXED_WIDTH) + d, "day"
    if kind == "yj":
        return year + _sep(rng, fixed, "d") + rng.choice(["JJJ", "00J"]), "day"
    if kind == "yq":
        return year + _sep(rng, fixed, "q") + "Q", "quarter"
    if kind in ("yw", "gw"):
        return year + _sep(rng, fixed, "w") + rng.choice(["WW", "0W"]), "week"
    if kind in ("yu", "gu"):
        return year + _sep(rng, fixed, "w") + rng.choice(["UU", "0U"]), "week"
    if kind in ("gv", "yv"):
        return year + _sep(rng, fixed, "w") + rng.choice(["VV", "0V"]), "week"
    raise AssertionError(kind)


def gen_pattern(rng, family=None, coherent=True, reorder=False):
    """-> dict(pattern=..., family=..., unit=finest calendar unit or None)"""
    family = family or rng.choice(["semver", "calver", "calver", "calver"])
    prefix = rng.choice(PREFIXES)
    unit = None
    if family == "semver":
        core = rng.choice(["MAJOR.MINOR.PATCH", "MAJOR.MINOR.PATCH", "MAJOR.MINOR[.PATCH]", "MAJOR[.MINOR[.PATCH]]",
                           "MAJOR.MINOR", "MAJOR.MINOR.PATCH.INC0", "MAJOR.MINOR.BUILD"])
        if rng.random() < 0.15:
            core = core.replace(".", rng.choice(["-", "_"]))
    else:
        core, unit = gen_calendar_core(rng, coherent, reorder)
        extras = rng.choice([[], ["BUILD"], ["BLD"], ["PATCH"], ["MINOR", "PATCH"], ["INC0"], ["INC1"], ["[PATCH]"],
                             ["[INC0]"], ["BUILD", "[PATCH]"], ["MINOR", "[PATCH]"], ["PATCH", "BUILD"], []])
        for part in extras:
            sep = rng.choice(SEPS)
            if part.startswith("["):
                core += "[" + sep + part[1:-1] + "]"
            else:
                core += sep + part
    suffix = rng.choice(TAG_SUFFIXES)
    if suffix.startswith("[PYTAG") or suffix.startswith("[.PYTAG"):
        # PYTAG directly after an optional numeric group would make `1.2` + `b0` vs omitted groups ambiguous only
        # syntactically, never semantically; keep it.
        pass
    pattern = prefix + core + suffix
    return {"pattern": pattern, "family": family, "unit": unit}


BOUNDARY_INTS = [0, 0, 1, 1, 2, 9, 10, 99, 100, 7, 42]
# far beyond any counter: 2**31, 2**63, twenty nines (the documented parts have no upper bound)
HUGE_INTS = [2 ** 31 - 1, 2 ** 31, 2 ** 63, 2 ** 64 - 1, 10 ** 20 - 1, 10 ** 20 - 1, 10 ** 25, 999999999]


def gen_bid(rng, bld=False, allow_zero=False):
    r = rng.random()
    if r < 0.35:
        val = str(rng.choice([1001, 1002, 1099, 1998, 1999, 22000, 22999, 29999, 333000, 399999]))
    elif r < 0.55:
        n = rng.randint(1, 7)
        val = "".join(rng.choice("0123456789") for _ in range(n))
    elif r < 0.75:
        val = str(rng.randint(1000, 1999))
    else:
        val = rng.choice(["0001", "0033", "0999", "999", "1", "9", "0", "09", "099", "8999", "19999", "4444000", "9999", "99999", "9999"])
    if bld:
        val = str(int(val)) if int(val) > 0 else "1"
    if int(val) == 0 and not allow_zero:
        # an id of value 0 cannot be written as BLD (documented range starts at 1); C15/C17 target it on purpose
        val = val[:-1] + "7"
    return val


def gen_state(rng, tree, date):
    """A version state valid for the pattern, with calendar fields taken from `date`."""
    st = {}
    names = rp.parts_of(tree)
    cal = rp.cal_fields(date)
    for name in names:
        field, kind = rp.PARTS[name]
        if field in cal:
            st[field] = cal[field]
        elif field in ("major", "minor", "patch", "inc0"):
            st[field] = rng.choice(BOUNDARY_INTS) if rng.random() < 0.8 else rng.randint(0, 5000)
            if rng.random() < 0.02:
                st[field] = rng.choice(HUGE_INTS)
        elif field == "inc1":
            st[field] = max(1, rng.choice(BOUNDARY_INTS))
            if rng.random() < 0.02:
                st[field] = rng.choice(HUGE_INTS)
        elif field == "bid":
            st[field] = gen_bid(rng, bld=(kind == "bld" or kind.startswith("bldpad")))
            if kind == "build4":
                st[field] = st[field].zfill(4)
            if kind.startswith("bldpad:"):
                # ids shorter than the pad width would need zero padding, which {BB}/{BBB}'s own recogniser rejects
                # ([1-9]\d{n,}); the README's ids start at 1001, so stay at or above the width (see DESIGN 8, F16)
                width = int(kind.split(":")[1])
                if len(st[field]) < width:
                    st[field] = st[field] + "1" * (width - len(st[field]))
        elif field == "tag":
            st[field] = rng.choice(["final", "final", "alpha", "beta", "rc", "post", "dev"])
    if "tag" in st and "TAG" in names and not any(rp.PARTS[n][1] in ("pytag", "pytag0") for n in names) and rng.random() < 0.04:
        st["tag"] = "preview"
    if "tag" in st or "num" in [rp.PARTS[n][0] for n in names]:
        tag = st.get("tag", "final")
        if "NUM" in names:
            st["num"] = 0 if tag == "final" else rng.choice([0, 0, 1, 9, 10, 10, 99, 10 ** 20 - 1])
            if "tag" not in st:
                st["num"] = rng.choice([0, 1, 9, 10])
    return st


TAG_CHOICES = ["alpha", "beta", "rc", "post", "dev", "final"]


def gen_flags(rng, tree, all_subsets=False):
    legacy = any(n.startswith("L.") for n in rp.parts_of(tree))
    names = set(n.split(".")[-1].upper() if n.startswith("L.") else n for n in rp.parts_of(tree))
    if legacy and "RELEASE_TAG" in names:
        names.add("TAG")
    flags = {}
    if all_subsets:
        bits = rng.randrange(128)
        keys = ["major", "minor", "patch", "tag", "tag_num", "pin_date", "pin_increments"]
        for i, k in enumerate(keys):
            if bits >> i & 1:
                flags[k] = rng.choice(TAG_CHOICES) if k == "tag" else True
        for k, part in (("major", "MAJOR"), ("minor", "MINOR"), ("patch", "PATCH")):
            if flags.get(k) and part not in names and rng.random() < 0.85:
                del flags[k]    # keep most steps meaningful: `test` refuses flags whose part the pattern lacks
        return flags
    nflags = rng.choice([0, 0, 1, 1, 1, 2, 2, 3])
    pool = []
    for k, part in (("major", "MAJOR"), ("minor", "MINOR"), ("patch", "PATCH")):
        if part in names:
            pool += [k, k]
        elif rng.random() < 0.08:
            pool.append(k)
    if names & {"TAG", "PYTAG"}:
        pool += ["tag", "tag"] + ([] if legacy else ["tag_num"])
    elif rng.random() < 0.05:
        pool += ["tag"]
    pool += ["pin_date", "pin_increments"]
    for _ in range(nflags):
        k = rng.choice(pool)
        flags[k] = rng.choice(TAG_CHOICES) if k == "tag" else True
    return flags


def flags_to_argv(flags, spell=0):
    """spell selects between equivalent spellings of the same options (must not change any outcome)."""
    argv = []
    short = {"minor": "-m", "patch": "-p"}
    for k in ("major", "minor", "patch"):
        if flags.get(k):
            argv.append(short[k] if (spell & 1 and k in short) else "--" + k)
    if flags.get("tag"):
        if spell & 2:
            argv.append("--tag=" + flags["tag"])
        elif spell & 4:
            argv += ["-t", flags["tag"]]
        else:
            argv += ["--tag", flags["tag"]]
    if flags.get("tag_num"):
        argv.append("--tag-num")
    if flags.get("pin_date"):
        argv.append("--pin-date")
    if flags.get("pin_increments"):
        argv.append("--pin-increments")
    return argv


WEEK53_YEARS = [y for y in range(2001, 2099)
                 if rp.cal_fields(dt.date(y, 12, 31))["week_w"] == 53 or rp.cal_fields(dt.date(y, 12, 31))["week_u"] == 53]


def gen_epoch(rng, two_digit_year=False):
    """A start date, biased to boundaries."""
    r = rng.random()
    if two_digit_year or r < 0.7:
        year = rng.randint(2001, 2098)
    elif r < 0.85:
        year = rng.randint(1000, 9990)
    else:
        year = rng.choice([2000, 2099, 2100, 1999, 9990, 1000])
        if two_digit_year:
            year = rng.randint(2001, 2098)
    r = rng.random()
    if r < 0.06:
        # leap years, in particular the ones divisible by 400: 29 February and day 366
        year = rng.choice([2004, 2024, 2096, 2048] if two_digit_year else [2000, 2000, 2400, 1600, 2024, 2096, 1204, 9600])
        month, day = rng.choice([(12, 31), (12, 31), (12, 30), (2, 29), (2, 29), (3, 1)])
        return dt.date(year, month, day)
    if r < 0.25:
        month, day = rng.choice([(12, 28), (12, 29), (12, 30), (12, 31), (1, 1), (1, 2), (1, 3), (1, 4), (1, 7)])
        if month == 12 and rng.random() < 0.5:
            # years whose last days fall into week 53 of the Monday- or Sunday-based count (one year in seven each)
            year = rng.choice(WEEK53_YEARS)
    elif r < 0.35:
        month, day = rng.choice([(2, 28), (3, 1), (3, 31), (4, 1), (6, 30), (7, 1), (9, 30), (10, 1)])
    else:
        month, day = rng.randint(1, 12), rng.randint(1, 28)
    return dt.date(year, month, day)


def has_two_digit_year(tree):
    return bool(set(rp.parts_of(tree)) & {"YY", "0Y", "GG", "0G", "L.yy"})


def gen_clock_delta(rng):
    r = rng.random()
    if r < 0.30:
        return 0
    if r < 0.50:
        return rng.randint(1, 6)
    if r < 0.70:
        return rng.randint(7, 45)
    if r < 0.85:
        return rng.randint(46, 800)
    return -rng.randint(1, 400)


LEGACY_PATTERNS = ["{pycalver}", "{pycalver}", "{semver}", "{semver}", "v{year}{month}{build}{release}",
                   "{year}{month}{build}{release}", "v{year}{build}{release}", "{year}{build}{release}",
                   "{year}.{month}.{MINOR}", "v{year}.{month_short}.{PATCH}", "{yy}.{month}.{dom}{build}",
                   "{year}q{quarter}.{BID}{release}", "{year}.{doy}{build}{release}", "{MAJOR}.{MM}.{PPP}",
                   "v{MAJOR}.{MINOR}.{PATCH}-{tag}", "{year}.{BBB}", "{yyyy}.{month}.{bid}", "{year}{month}.{build_no}",
                   "v{semver}", "{calver}.{PATCH}", "rel-{year}.{month_short}.{dom}.{MINOR}"]
