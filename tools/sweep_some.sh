#!/bin/sh
# usage: tools/sweep_some.sh TIER SEED ID...   - like seedsweep.sh for a chosen list of checks
cd "$(dirname "$0")/.."
TIER=$1; seed=$2; shift 2
bad=0
for p in "$@"; do
  out=$(VERIF_SEED=$seed ./check $p --tier $TIER 2>&1); rc=$?
  if [ $rc -ne 0 ]; then bad=$((bad+1)); echo "ALARM seed=$seed $p rc=$rc"; echo "$out" | grep -E "VIOLATION|violation kind|sanity|deadline" | cut -c1-400 | head -6; echo "$out" | grep -A30 -m1 "HARNESS" | cut -c1-300; else echo "ok seed=$seed $p $(echo "$out" | head -1 | cut -c1-100)"; fi
done
echo "SWEEP DONE bad=$bad"
