#!/venv/bin/python
"""Debug helper: run a property's campaign in-process for a range of indices and print violations.
usage: tools/probe.py C05 CAMPAIGN_INDEX start stop [PROP_FILTER] [KIND_FILTER]"""
import os, sys, json
HERE = os.path.dirname(os.path.dirname(os.path.abspath(__file__)))
sys.path.insert(0, HERE)
import runner
from sim import invoker
prop, ci, a, b = sys.argv[1], int(sys.argv[2]), int(sys.argv[3]), int(sys.argv[4])
pf = sys.argv[5] if len(sys.argv) > 5 else None
kf = sys.argv[6] if len(sys.argv) > 6 else None
tier = os.environ.get("VERIF_TIER", "quick")
mod = runner.load_prop(prop)
camp = mod.CAMPAIGNS[ci]
seen = {}
try:
    for i in range(a, b):
        case = camp.gen(int(os.environ.get("VERIF_SEED", "0")), i, tier)
        ctx = runner.run_case(mod, camp, case)
        for v in ctx.violations:
            if pf and v["property"] != pf: continue
            if kf and v["kind"] != kf: continue
            k = (v["property"], v["kind"])
            seen[k] = seen.get(k, 0) + 1
            if seen[k] <= int(os.environ.get("SHOW", "4")):
                print(i, v["property"], v["kind"], v["detail"][:700])
                if os.environ.get("CASE"): print("   case:", json.dumps(case)[:1500])
finally:
    invoker.cleanup_scratch()
print(seen)
