#!/venv/bin/python
"""Regenerates /verif/MANIFEST.json from the table below (kept in one place so it stays consistent)."""
import os
import sys
import json

HERE = os.path.dirname(os.path.dirname(os.path.abspath(__file__)))
sys.path.insert(0, HERE)

TECH = "deterministic simulation with fault injection: "

CHECKS = {
    "C10": dict(
        category="fault_enumeration",
        text=("Every run is one real in-process `bumpver update` against a FakeRepo (git or hg command set) and FakeHook behind "
              "the subprocess seams; the seam event log (argv by role, hook env, directory digest at every crossing) is checked "
              "against a step automaton derived from the statement. quick samples the 311,040-point configuration lattice and "
              "enumerates every single VCS-command failure (CalledProcessError and ENOENT) and hook failure for 480 VCS-reaching "
              "configurations; thorough enumerates the whole lattice and 12,000 configurations' failure positions. Failing hooks "
              "exit with 1/3/127/255 or die from a signal; part of the runs inherit BUMPVER_*_VERSION from their environment; a "
              "real-git leg (REALSTEPS) runs real /bin/sh hooks that log order, environment, HEAD and tags."),
        design_ref="DESIGN.md 6.10",
        note=("Trusted: FakeRepo/FakeHook models, the role classifier for argv, the step automaton. hg is a stub only (no hg binary "
              "in the sandbox). Failures of fetch/tag-listing/VCS-detection are outside the statement's step list and only "
              "ordering rules are applied to them."),
        technique=TECH + "seeded sampling / full enumeration of the configuration lattice x single-fault positions at the "
                         "subprocess seam, step-automaton oracle over the event log"),
}

CHECKS.update({
    "C01": dict(
        category="exploration",
        text=("Seeded histories of real `bumpver test` invocations (chains, each step starting from the previously announced "
              "version) and of `update`/`update --dry` in generated projects, under a simulated clock that moves forward, "
              "far forward and backwards, with --set-version targets derived by the reference model (greater, equal, lower, "
              "junk, trailing text, PEP 440-equal respelling, tag downgrade, other scheme). Oracle: exit 0 => the announced "
              "version is accepted in full by an independent recogniser and is strictly greater under vendored "
              "packaging.version; exit != 0 or --dry => directory snapshot unchanged. UNQUOTED: a TOML current_version written as a bare number (1.10) is refused or read as written."),
        design_ref="DESIGN.md 6.1", note="Trusted: ref.pattern recogniser, vendored packaging.version + legacy key. Sampled, not exhaustive.",
        technique=TECH + "seeded invocation histories x clock jumps, reference recogniser/order as oracle"),
    "C02": dict(
        category="exploration",
        text=("The simulated clock sweeps its whole domain (thorough: every day 1000..9999 for 12 patterns, 2001..2099 for "
              "two-digit-year patterns) through the real renderer/recogniser pair; every version announced along TESTCMD/LIFE "
              "histories is fed back as the next input, round-tripped and shown by `show`; every search pattern of every "
              "generated project is rendered by the real rewrite code and must be accepted in full by its own recogniser."),
        design_ref="DESIGN.md 6.2", note="Library entry points are touched only via sim/adapter.py. Known finding F8 (week 53) is reported as KNOWN-FINDING.",
        technique=TECH + "exhaustive sweep of the simulated clock + seeded bump histories, round-trip laws as oracle"),
    "C03": dict(
        category="exploration",
        text=("LIFE histories in generated projects (1..4 files x 1..4 search patterns, shared lines, all line-ending regimes, "
              "globs and repeated entries, every config syntax); after each successful real update a template walker checks "
              "every slot against the reference rendering of the announced version. BADCONFIG: a setup.cfg that lists one file twice is refused, or else every occurrence of every listed pattern is updated."),
        design_ref="DESIGN.md 6.3", note="Trusted: template model, ref.pattern renderer. Value of {pep440_version} slots is judged under C15.",
        technique=TECH + "seeded invocation histories over generated project layouts, template model of every occurrence slot"),
    "C04": dict(
        category="exploration",
        text=("As C03 with the byte-content generator (non-ASCII, BOM, control characters incl. VT/FF/NEL/LS/PS/NUL, regex "
              "metacharacters as content, four line-ending regimes, optional final newline, unconfigured files): every byte "
              "outside the matched spans must be preserved; a real child interpreter under LC_ALL=C with UTF-8 mode off must "
              "produce identical bytes. WRITEFAULT: opening one configured file for writing fails (ENOSPC/EACCES/...); COMMITFAIL: real "
              "git's own pre-commit hook refuses the release commit while an unconfigured tracked file has uncommitted changes - "
              "that file keeps its bytes whatever bumpver does about the failure."),
        design_ref="DESIGN.md 6.4", note="Trusted: template model. Invalid UTF-8 input is not generated.",
        technique=TECH + "seeded histories over generated byte contents x line-ending regimes x process locale, byte-exact template oracle"),
    "C05": dict(
        category="exploration",
        text=("Refinement of every `bumpver test`/`update` step against ref.bump, an executable model of the README's part rules "
              "(flag increments, rollover/reset, INC0/INC1, BUILD successor, TAG/NUM, calendar from date, pinned, never "
              "backwards, optional-group omission), over chains under forward/backward/boundary clock moves and process "
              "time zones east and west of UTC."),
        design_ref="DESIGN.md 6.5", note="Classes the README leaves open are skipped and counted (unspecified_*). Known finding F8 (week 53).",
        technique=TECH + "seeded histories x clock relations, refinement against an executable reference model"),
    "C14": dict(
        category="exploration",
        text=("The simulated clock visits consecutive days and the real CLI renders each; thorough enumerates every consecutive "
              "day pair 2001..2099 for all 51 coherent year x sub-part patterns; every incoherent pairing must be refused by "
              "test/update/show; bump leg with backward clock jumps. UNQUOTED: a TOML current_version written as a bare number is refused or read as written, never misread."),
        design_ref="DESIGN.md 6.14", note="Order oracle: vendored packaging.version. Week-53 days of WW/UU patterns are counted, not reported here (F8).",
        technique=TECH + "exhaustive sweep of the simulated clock per pattern, monotonicity under the reference order"),
    "C15": dict(
        category="exploration",
        text=("LIFE histories in projects carrying {pep440_version} next to {version}; each slot written by a real update is judged "
              "by vendored packaging.version (valid, equal, normal-form properties) and must be found again by the derived "
              "search pattern; `test`/`show` PEP440 lines must denote the same version."),
        design_ref="DESIGN.md 6.15", note="Derived-text property: the simulation contributes reached states, not faults. Known findings F13, F15.",
        technique=TECH + "seeded invocation histories, independent PEP 440 implementation as oracle on written bytes"),
    "C17": dict(
        category="exploration",
        text=("Chains of real `bumpver test` invocations, each starting from the previous output: thorough covers all 111,110 "
              "start ids of 1..5 digits x 3 steps and 92 chains of 10,000 bumps across every digit-length expansion and up to "
              "the all-nines maximum. UNQUOTED: a TOML current_version written as a bare number (2026.1100) is refused or read as written."),
        design_ref="DESIGN.md 6.17", note="lexid successor re-implemented from its README for the exact-successor check.",
        technique=TECH + "long seeded bump chains (histories), order oracles along the chain"),

    "C06": dict(
        category="fault_enumeration",
        text=("Per seeded project every single fault position is injected into the real scratch directory - each (file, pattern) "
              "made non-matching, each file removed, each file unreadable (open() for reading fails with EACCES/EIO/ESTALE at the "
              "file seam), each way of making the new version rejected - in up to 6 orders of the "
              "config's file list, both as `update` and as `update --dry` followed by `update`, after a fault-free control run "
              "succeeded (plus the double fault absent+shadowed pattern and the single fault shadowed pattern). Oracle: exit != 0, "
              "byte-identical directory, no staging/commit/tag/push/hook at the VCS seam, and a "
              "--dry error implies the real run changes nothing."),
        design_ref="DESIGN.md 6.6", note="Fault vocabulary = the causes the statement names; no I/O errors or mid-rewrite kills (no property promises anything there). FakeRepo for git.",
        technique=TECH + "enumeration of single fault positions (filesystem state faults, rejected versions) x file orders, snapshot oracle"),
    "C08": dict(
        category="exploration",
        text=("Histories of 1..12 invocations against real git with a bare origin: updates with random flags under a "
              "non-decreasing clock, deliberately failing invocations, --no-commit/--no-tag-commit/--no-push runs, actor events "
              "(unrelated commits, commit-all, branch switches). After every success: files (template walker), config, `show`, "
              "exactly one new commit of configured files, one tag on it that is the newest matching tag; failures leave no "
              "trace; a further update succeeds within one step once faults stop."),
        design_ref="DESIGN.md 6.8", note="Real git 2.39 with pinned identity/dates/config so that hashes replay. Default tag scope only.",
        technique=TECH + "seeded histories of invocations and actor events against real git, cross-agreement oracles + bounded progress"),
    "C09": dict(
        category="exploration",
        text=("Tag sets of 0..30 tags (valid, PEP 440-equal respellings, other schemes, junk, calendar-impossible) over 1..4 "
              "branches, all three scopes from config and --tag-scope, --ignore-vcs-tag, config below/equal/above the tags; "
              "the announced start version must be an answer of the reference scope rule, no tag may crash a run, a new version "
              "never equals an existing tag. A real-git leg replays histories and validates the FakeRepo model (incl. a branch "
              "named like a tag, a tag moved on the remote, tags that arrive with a fetch, failing fetch / tag listing)."),
        design_ref="DESIGN.md 6.9", note="Trusted: reference scope rule over FakeRepo's DAG; FakeRepo's tag listings are cross-checked against real git on every TAGSREAL run.",
        technique=TECH + "seeded VCS peer states (tags x branches) x scopes, reference 'current version' function"),
    "C11": dict(
        category="fault_enumeration",
        text=("The complete matrix of every status real git reports for a file x {pattern file, unrelated file} x --allow-dirty "
              "(120 cases incl. quoted names, respelled keys, a file three levels below an untracked directory) plus seeded "
              "multi-file combinations with up to 30 further dirty files, in real repositories; oracle = the statement's predicates on "
              "exit code, bytes, HEAD, tags and the content of the bump commit."),
        design_ref="DESIGN.md 6.11", note="Status text is real `git status --porcelain` output, validated against the expected XY columns.",
        technique=TECH + "enumeration of working-tree states of a real git peer, statement predicates as oracle"),
    "C12": dict(
        category="exploration",
        text=("Adversarial commit/tag message templates (config TOML/INI and CLI incl. OLD/NEW) and file names cross the "
              "subprocess seam; each world is also run with plain control values and the recorded argv lists must be equal "
              "except for the one substituted element, and the paths the tool itself makes of the staging commands (its option "
              "parsing, pathspec files on stdin) must be the configured ones; a real-git leg compares stored commit/tag objects; "
              "COMMITFAIL: after git refused the commit, the index differs from HEAD in configured paths only."),
        design_ref="DESIGN.md 6.12", note="Trusted: reference placeholder substitution; FakeRepo at the argv seam (hg stub only).",
        technique=TECH + "control-run argv differential at the subprocess seam + real git objects"),
    "C13": dict(
        category="exploration",
        text=("Forked worlds: `update --dry ARGS` and `update ARGS` on identical snapshots; the dry fork must not change a byte "
              "nor mutate the VCS, and its printed diff, parsed by a strict hunk-count-driven applier and applied to the pre-run "
              "files, must reproduce the real fork's files exactly. Perturbations: stale partial occurrence, broken pattern, tag "
              "collision on another branch, a newer tag that only arrives with the fetch."),
        design_ref="DESIGN.md 6.13", note="Trusted: ref.udiff. Known finding F17 (ANSI escapes stripped by click.echo).",
        technique=TECH + "world forking (dry vs real on one snapshot), strict unified-diff applier as oracle"),
    "C18": dict(
        category="exploration",
        text=("One abstract configuration serialised into six sibling worlds (setup.cfg, pyproject.toml, bumpver.toml, "
              ".bumpver.toml, [pycalver] in setup.cfg and pycalver.toml; all boolean spellings, quoting styles, array styles); "
              "parsed Config and the behaviour of the same history must agree across siblings. BADCONFIG: the same syntax slip (a file key without its `=`) must be treated alike in setup.cfg and TOML."),
        design_ref="DESIGN.md 6.18", note="Differential oracle: it detects disagreement between syntaxes, not a bug common to all readers.",
        technique=TECH + "sibling worlds differing only in config syntax replaying one history, differential oracle"),
    "C19": dict(
        category="fault_enumeration",
        text=("All 25,000 layouts of the recognised project files x content kinds x three simulated instants around New Year "
              "(thorough: complete; quick: seeded sample), seeded file sizes (up to 70 kB) and spellings of an existing section; "
              "ops init --dry, init, show, init (a sample as real child processes, also under PYTHONOPTIMIZE); statement predicates on bytes, "
              "exit codes and `show` output."),
        design_ref="DESIGN.md 6.19", note="'unrelated content' = other tools' sections that do not mention bumpver.",
        technique=TECH + "exhaustive enumeration of starting directory states x simulated clock, statement predicates"),
    "C20": dict(
        category="exploration",
        text=("TESTCMD chains and LIFE histories with legacy brace patterns under a clock 2000..2098: every announced version "
              "must be accepted in full by the reference legacy recogniser, read back equal, re-render identically, be strictly "
              "greater ({pycalver} also as a string); `test` and `update --dry` must agree (engine dispatch); slots incl. "
              "{pep440_version} are rewritten."),
        design_ref="DESIGN.md 6.20", note="No bump-rule model for legacy patterns (the statement gives laws only).",
        technique=TECH + "seeded invocation histories with legacy patterns, round-trip/order laws + test-vs-update differential"),
})

NOT_APPLICABLE = {
    "C07": ("pure function of one in-memory argument (pattern string -> regex -> matching lines) quantified over all literal "
            "strings; no clock, file, peer, fault, ordering or history for a simulator to control - see DESIGN.md section 7"),
    "C16": ("algebraic order laws of a pure comparison key over all string pairs/triples; nothing for deterministic simulation "
            "to schedule or fault - see DESIGN.md section 7 (its system-level consequence is checked under C09)"),
}

PENDING_REASON = "check not built yet in this round (planned, see DESIGN.md section 6); not claimed until its check exists"

ALL = ["C%02d" % i for i in range(1, 21)]


def main():
    checks = []
    for pid in ALL:
        if pid not in CHECKS:
            continue
        c = CHECKS[pid]
        checks.append({
            "property_id": pid,
            "quick_cmd": "./check %s --tier quick" % pid,
            "thorough_cmd": "./check %s --tier thorough" % pid,
            "evidence_file": "evidence/%s.json" % pid,
            "replay_cmd_template": "./check replay {path}",
            "engine": "sim",
            "level_claimed": {"category": c["category"], "text": c["text"], "design_ref": c["design_ref"]},
            "level_note": c["note"],
            "technique": c["technique"],
        })
    na = []
    for pid in ALL:
        if pid in CHECKS:
            continue
        na.append({"property_id": pid, "reason": NOT_APPLICABLE.get(pid, PENDING_REASON)})
    manifest = {
        "version": 1,
        "setup_cmd": "./setup.sh",
        "hooks": {
            "guard": "BUMPVER_VERIF",
            "enable": ("no source hooks are needed: the checks import bumpver from /repo/src at run time and use seams that "
                       "already exist (version.TODAY, utils.now, vcs.sp, hooks.sp, cwd, --date); BUMPVER_VERIF is reserved and unused"),
            "baseline_off_cmd": ("cd /repo && /venv/bin/python -m pytest -ra -q -p no:cacheprovider --timeout=900 "
                                 "--continue-on-collection-errors; rc=$?; git -C /repo checkout -- README.md; exit $rc"),
            "source_commits": [],
            "add_only": True,
        },
        "engines": [{
            "name": "sim", "path": "sim/ ref/ gen/ props/ runner.py check",
            "serves_properties": [c["property_id"] for c in checks],
            "kind_free_text": ("seeded deterministic simulator: real bumpver CLI in-process, simulated clock, FakeRepo/real git "
                               "and FakeHook behind the subprocess seams, real scratch files, fault plans, reference models"),
        }],
        "checks": checks,
        "not_applicable": na,
        "notes": ("Exit codes of ./check: 0 held, 1 VIOLATION, 2 harness failure (never reported as a violation). "
                  "VERIF_SEED / VERIF_TIER are honoured. Replays are written under replays/."),
    }
    with open(os.path.join(HERE, "MANIFEST.json"), "w") as fobj:
        json.dump(manifest, fobj, indent=1)
        fobj.write("\n")
    print("MANIFEST.json: %d checks, %d not_applicable" % (len(checks), len(na)))


if __name__ == "__main__":
    main()
