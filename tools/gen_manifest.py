#!/venv/bin/python
"""Regenerates /verif/MANIFEST.json from the table below (kept in one place so it stays consistent)."""
import os
import sys
import json

HERE = os.path.dirname(os.path.dirname(os.path.abspath(__file__)))
sys.path.insert(0, HERE)

TECH = "deterministic simulation with fault injection: "

CHECKS = {
    "C10": dict(
        category="fault_enumeration",
        text=("Every run is one real in-process `bumpver update` against a FakeRepo (git or hg command set) and FakeHook behind "
              "the subprocess seams; the seam event log (argv by role, hook env, directory digest at every crossing) is checked "
              "against a step automaton derived from the statement. quick samples the 311,040-point configuration lattice and "
              "enumerates every single VCS-command failure (CalledProcessError and ENOENT) and hook failure for 480 VCS-reaching "
              "configurations; thorough enumerates the whole lattice and 12,000 configurations' failure positions."),
        design_ref="DESIGN.md 6.10",
        note=("Trusted: FakeRepo/FakeHook models, the role classifier for argv, the step automaton. hg is a stub only (no hg binary "
              "in the sandbox). Failures of fetch/tag-listing/VCS-detection are outside the statement's step list and only "
              "ordering rules are applied to them."),
        technique=TECH + "seeded sampling / full enumeration of the configuration lattice x single-fault positions at the "
                         "subprocess seam, step-automaton oracle over the event log"),
}

NOT_APPLICABLE = {
    "C07": ("pure function of one in-memory argument (pattern string -> regex -> matching lines) quantified over all literal "
            "strings; no clock, file, peer, fault, ordering or history for a simulator to control - see DESIGN.md section 7"),
    "C16": ("algebraic order laws of a pure comparison key over all string pairs/triples; nothing for deterministic simulation "
            "to schedule or fault - see DESIGN.md section 7 (its system-level consequence is checked under C09)"),
}

PENDING_REASON = "check not built yet in this round (planned, see DESIGN.md section 6); not claimed until its check exists"

ALL = ["C%02d" % i for i in range(1, 21)]


def main():
    checks = []
    for pid in ALL:
        if pid not in CHECKS:
            continue
        c = CHECKS[pid]
        checks.append({
            "property_id": pid,
            "quick_cmd": "./check %s --tier quick" % pid,
            "thorough_cmd": "./check %s --tier thorough" % pid,
            "evidence_file": "evidence/%s.json" % pid,
            "replay_cmd_template": "./check replay {path}",
            "engine": "sim",
            "level_claimed": {"category": c["category"], "text": c["text"], "design_ref": c["design_ref"]},
            "level_note": c["note"],
            "technique": c["technique"],
        })
    na = []
    for pid in ALL:
        if pid in CHECKS:
            continue
        na.append({"property_id": pid, "reason": NOT_APPLICABLE.get(pid, PENDING_REASON)})
    manifest = {
        "version": 1,
        "setup_cmd": "./setup.sh",
        "hooks": {
            "guard": "BUMPVER_VERIF",
            "enable": ("no source hooks are needed: the checks import bumpver from /repo/src at run time and use seams that "
                       "already exist (version.TODAY, utils.now, vcs.sp, hooks.sp, cwd, --date); BUMPVER_VERIF is reserved and unused"),
            "baseline_off_cmd": ("cd /repo && /venv/bin/python -m pytest -ra -q -p no:cacheprovider --timeout=900 "
                                 "--continue-on-collection-errors; rc=$?; git -C /repo checkout -- README.md; exit $rc"),
            "source_commits": [],
            "add_only": True,
        },
        "engines": [{
            "name": "sim", "path": "sim/ ref/ gen/ props/ runner.py check",
            "serves_properties": [c["property_id"] for c in checks],
            "kind_free_text": ("seeded deterministic simulator: real bumpver CLI in-process, simulated clock, FakeRepo/real git "
                               "and FakeHook behind the subprocess seams, real scratch files, fault plans, reference models"),
        }],
        "checks": checks,
        "not_applicable": na,
        "notes": ("Exit codes of ./check: 0 held, 1 VIOLATION, 2 harness failure (never reported as a violation). "
                  "VERIF_SEED / VERIF_TIER are honoured. Replays are written under replays/."),
    }
    with open(os.path.join(HERE, "MANIFEST.json"), "w") as fobj:
        json.dump(manifest, fobj, indent=1)
        fobj.write("\n")
    print("MANIFEST.json: %d checks, %d not_applicable" % (len(checks), len(na)))


if __name__ == "__main__":
    main()
