#!/venv/bin/python
"""Confirm an independently written breaking change and run the checks against it.

usage: tools/try_seeded.py <seeded dir with patch.diff + demo.py> <owning property> [--all] [--skip-confirm]

1. confirmation in a scratch worktree (outside /repo and /verif): patch applies, unedited suite still passes (same failures as
   the clean tree), demo exits non-zero with the patch and 0 without it;
2. `git -C /repo apply`, run the owning check (and, with --all, every check) in quick tier, `git -C /repo checkout -- .`;
3. write meta.json next to the patch."""
import os
import sys
import json
import shutil
import subprocess

HERE = os.path.dirname(os.path.dirname(os.path.abspath(__file__)))
PY = "/venv/bin/python"
ALL = ["C01", "C02", "C03", "C04", "C05", "C06", "C08", "C09", "C10", "C11", "C12", "C13", "C14", "C15", "C17", "C18", "C19", "C20"]


def sh(cmd, **kw):
    return subprocess.run(cmd, stdout=subprocess.PIPE, stderr=subprocess.STDOUT, **kw)


def suite(root):
    env = dict(os.environ, PYTHONPATH=os.path.join(root, "src"), PYTHONDONTWRITEBYTECODE="1")
    p = sh([PY, "-m", "pytest", "-q", "-p", "no:cacheprovider", "--timeout=900", "-rf", "--continue-on-collection-errors",
            "test", "src"], cwd=root, env=env, timeout=1500)
    out = p.stdout.decode("utf-8", "replace")
    failed = sorted(set(l.split(" ")[1] for l in out.splitlines() if l.startswith("FAILED ") or l.startswith("ERROR ")))
    tail = out.strip().splitlines()[-1] if out.strip() else ""
    return failed, tail


def demo(root, demo_path):
    env = dict(os.environ, PYTHONPATH=os.path.join(root, "src"), PYTHONDONTWRITEBYTECODE="1")
    p = sh([PY, demo_path], cwd=root, env=env, timeout=600)
    return p.returncode, p.stdout.decode("utf-8", "replace")[-600:]


def main():
    d = os.path.abspath(sys.argv[1])
    prop = sys.argv[2].upper()
    run_all = "--all" in sys.argv
    skip = "--skip-confirm" in sys.argv
    scratch = "--scratch" in sys.argv     # run the checks against a patched scratch worktree (VERIF_REPO_SRC), leave /repo alone
    patch = os.path.join(d, "patch.diff")
    demo_path = os.path.join(d, "demo.py")
    meta = {"property": prop, "patch": "patch.diff", "demo": "demo.py"}
    if os.path.exists(os.path.join(d, "meta.json")):
        try:
            meta.update(json.load(open(os.path.join(d, "meta.json"))))
        except Exception:
            pass
    if not skip:
        root = "/tmp/sv-%d" % os.getpid()
        sh(["git", "-C", "/repo", "worktree", "add", "--detach", "-q", root, "HEAD"])
        try:
            base_failed, base_tail = suite(root)
            sh(["git", "-C", root, "checkout", "--", "README.md"])
            rc0, out0 = demo(root, demo_path)
            ap = sh(["git", "-C", root, "apply", patch])
            if ap.returncode != 0:
                print("PATCH DOES NOT APPLY:", ap.stdout.decode()[-400:])
                meta["confirmed"] = False
                meta["confirm_note"] = "patch does not apply to the current /repo HEAD"
                json.dump(meta, open(os.path.join(d, "meta.json"), "w"), indent=1)
                return 3
            mut_failed, mut_tail = suite(root)
            sh(["git", "-C", root, "checkout", "--", "README.md"])
            rc1, out1 = demo(root, demo_path)
            new_fail = sorted(set(mut_failed) - set(base_failed))
            meta["confirmation"] = {"suite_clean": base_tail, "suite_patched": mut_tail, "new_suite_failures": new_fail,
                                    "demo_exit_clean": rc0, "demo_exit_patched": rc1, "demo_output_patched": out1[-300:]}
            meta["confirmed"] = (not new_fail) and rc0 == 0 and rc1 != 0
            print("confirm: suite clean [%s] patched [%s] new failures %s; demo clean rc=%s patched rc=%s -> %s" % (
                base_tail, mut_tail, new_fail, rc0, rc1, "CONFIRMED" if meta["confirmed"] else "NOT CONFIRMED"))
        finally:
            sh(["git", "-C", "/repo", "worktree", "remove", "--force", root])
            shutil.rmtree(root, ignore_errors=True)
    if not meta.get("confirmed", True):
        json.dump(meta, open(os.path.join(d, "meta.json"), "w"), indent=1)
        return 3
    target = "/repo"
    if scratch:
        target = "/dev/shm/try-seeded-%d" % os.getpid()
        sh(["git", "-C", "/repo", "worktree", "add", "--detach", "-q", target, "HEAD"])
    else:
        st = sh(["git", "-C", "/repo", "status", "--porcelain"]).stdout.decode().strip()
        if st:
            print("REFUSING: /repo is not clean:", st)
            return 2
    ap = sh(["git", "-C", target, "apply", patch])
    if ap.returncode != 0:
        print("patch does not apply:", ap.stdout.decode()[-300:])
        if scratch:
            sh(["git", "-C", "/repo", "worktree", "remove", "--force", target])
        return 3
    results = {}
    try:
        todo = [prop] + ([p for p in ALL if p != prop] if run_all else [])
        for p in todo:
            env = dict(os.environ, VERIF_NO_EVIDENCE="1")
            if scratch:
                env["VERIF_REPO_SRC"] = os.path.join(target, "src")
            r = sh([os.path.join(HERE, "check"), p, "--tier", "quick"], cwd=HERE, env=env, timeout=1500)
            out = r.stdout.decode("utf-8", "replace")
            kinds = sorted(set(l.split("violation kind=")[1].split(":")[0] for l in out.splitlines() if l.startswith("violation kind=")))
            results[p] = {"exit": r.returncode, "kinds": kinds}
            if r.returncode == 2:
                results[p]["harness"] = [l[:400] for l in out.splitlines() if l.startswith("HARNESS-ERROR")][:3]
            print("  %s exit=%s %s" % (p, r.returncode, kinds))
    finally:
        if scratch:
            sh(["git", "-C", "/repo", "worktree", "remove", "--force", target])
            shutil.rmtree(target, ignore_errors=True)
        else:
            sh(["git", "-C", "/repo", "checkout", "--", "."])
        for f in os.listdir(os.path.join(HERE, "replays")):
            if f.endswith(".json"):
                os.unlink(os.path.join(HERE, "replays", f))
    meta["checks_quick"] = results
    meta["caught_by"] = sorted(p for p, r in results.items() if r["exit"] == 1)
    meta["what_was_run"] = "tools/try_seeded.py: scratch-worktree confirmation (suite + demo with and without the patch), then " + ("a patched scratch worktree via VERIF_REPO_SRC (a background run was using /repo)" if scratch else "`git -C /repo apply`") + ", ./check <ID> --tier quick, undo"
    json.dump(meta, open(os.path.join(d, "meta.json"), "w"), indent=1)
    print("caught by:", meta["caught_by"])
    return 0


if __name__ == "__main__":
    sys.exit(main())
