#!/venv/bin/python
"""Runs every check (quick) against every seeded change on scratch worktrees (VERIF_REPO_SRC), never touching /repo.
Writes seeded/MATRIX.json: {seeded id: {check: exit code}}.  usage: tools/seeded_matrix.py [ids...]"""
import os, sys, json, subprocess, shutil
HERE = os.path.dirname(os.path.dirname(os.path.abspath(__file__)))
ALL = ["C01", "C02", "C03", "C04", "C05", "C06", "C08", "C09", "C10", "C11", "C12", "C13", "C14", "C15", "C17", "C18", "C19", "C20"]
RELATED = {"C01": ["C01", "C05", "C02", "C09"], "C02": ["C02", "C01", "C05", "C14"], "C03": ["C03", "C04", "C13", "C08"],
           "C04": ["C04", "C03", "C13"], "C05": ["C05", "C01", "C14"], "C06": ["C06", "C13", "C01"], "C08": ["C08", "C09", "C11", "C10"],
           "C09": ["C09", "C08", "C01"], "C10": ["C10", "C08", "C12"], "C11": ["C11", "C08", "C10"], "C12": ["C12", "C10", "C08"],
           "C13": ["C13", "C06", "C03"], "C14": ["C14", "C05", "C02"], "C15": ["C15", "C03", "C20"], "C17": ["C17", "C05", "C01"],
           "C18": ["C18", "C19", "C03"], "C19": ["C19", "C18"], "C20": ["C20", "C15", "C01"]}
FULL = "--full" in sys.argv
OWN = "--own" in sys.argv          # only the owning check of each change
sys.argv = [a for a in sys.argv if a not in ("--full", "--own")]
ids = sys.argv[1:] or sorted(d for d in os.listdir(os.path.join(HERE, "seeded")) if os.path.isdir(os.path.join(HERE, "seeded", d)))
out_path = os.path.join(HERE, "seeded", "MATRIX.json")
matrix = json.load(open(out_path)) if os.path.exists(out_path) else {}
for sid in ids:
    root = "/dev/shm/seeded-matrix-%s" % sid
    subprocess.call(["git", "-C", "/repo", "worktree", "add", "--detach", "-q", root, "HEAD"])
    try:
        if subprocess.call(["git", "-C", root, "apply", os.path.join(HERE, "seeded", sid, "patch.diff")]) != 0:
            print(sid, "patch does not apply"); continue
        row = {}
        for p in (ALL if FULL else ([sid[:3].upper()] if OWN else RELATED[sid[:3].upper()])):
            env = dict(os.environ, VERIF_REPO_SRC=os.path.join(root, "src"), VERIF_NO_EVIDENCE="1")
            r = subprocess.run([os.path.join(HERE, "check"), p, "--tier", "quick"], cwd=HERE, env=env, stdout=subprocess.PIPE, stderr=subprocess.STDOUT, timeout=1800)
            row[p] = r.returncode
        matrix[sid] = dict(matrix.get(sid, {}), **row) if OWN else row
        print(sid, " ".join("%s" % p for p in ALL if row.get(p) == 1), "| missed:", [p for p in ALL if row.get(p) == 0],
              "| harness:", [p for p in ALL if row.get(p) == 2], flush=True)
        json.dump(matrix, open(out_path, "w"), indent=1, sort_keys=True)
    finally:
        subprocess.call(["git", "-C", "/repo", "worktree", "remove", "--force", root])
        shutil.rmtree(root, ignore_errors=True)
