#!/bin/sh
# usage: tools/seedsweep.sh FIRST LAST [tier]   - runs every claimed check for each VERIF_SEED, prints a summary line per run
cd "$(dirname "$0")/.."
FIRST=${1:-1}; LAST=${2:-10}; TIER=${3:-quick}
bad=0
for seed in $(seq $FIRST $LAST); do
  for p in C01 C02 C03 C04 C05 C06 C08 C09 C10 C11 C12 C13 C14 C15 C17 C18 C19 C20; do
    out=$(VERIF_SEED=$seed ./check $p --tier $TIER 2>&1); rc=$?
    if [ $rc -ne 0 ]; then bad=$((bad+1)); echo "ALARM seed=$seed $p rc=$rc"; echo "$out" | grep -E "VIOLATION|violation kind|sanity|deadline" | cut -c1-400 | head -6; echo "$out" | grep -A30 -m1 "HARNESS" | cut -c1-300; else echo "ok seed=$seed $p $(echo "$out" | head -1 | cut -c1-100)"; fi
  done
done
echo "SWEEP DONE bad=$bad"
