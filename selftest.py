"""Self-tests of the machinery.

  check selftest determinism [PROP ...] [--n N]   every campaign: N run indices executed twice in fresh interpreters, with 4 and
                                                  16 workers and a shifted PYTHONHASHSEED assignment; per-run digests must match
  check selftest regressions                      replays of every fixed finding (findings/*.json) must NOT reproduce
  check selftest sensitivity [NAME ...]           catalogue of source mutations applied to a scratch copy of /repo/src; the
                                                  owning check must report a VIOLATION (see mutants.py)
"""
import os
import sys
import json
import glob
import shutil
import subprocess

import runner

HERE = os.path.dirname(os.path.abspath(__file__))


def determinism(args):
    n = 160
    props = []
    while args:
        a = args.pop(0)
        if a == "--n":
            n = int(args.pop(0))
        else:
            props.append(a.upper())
    props = props or runner.CLAIMED
    from sim import invoker
    bad = 0
    os.environ["VERIF_MAX_INDEX"] = str(n)
    try:
        for prop in props:
            mod = runner.load_prop(prop)
            for campaign in mod.CAMPAIGNS:
                runs = []
                for nworkers, offset in ((16, "0"), (4, "0"), (16, "4")):
                    os.environ["VERIF_HASHSEED_OFFSET"] = offset
                    outdir = invoker.new_dir("det")
                    results, failed = runner.run_campaign(prop, "quick", 0, campaign, nworkers, outdir)
                    if failed:
                        print("HARNESS-ERROR: %s %s worker failed: %s" % (prop, campaign.name, failed[0][2][-500:]))
                        bad += 1
                    agg = runner.merge(results)
                    runs.append(agg["digests"])
                base = runs[0]
                for label, other in zip(("4 workers", "shifted hash seeds"), runs[1:]):
                    diff = [i for i in base if base[i] != other.get(i)]
                    if label == "shifted hash seeds" and diff and len(base) == len(other):
                        # the hash seed is a recorded part of a run's configuration (it decides the order of `git add`);
                        # a different seed may legitimately stage paths in another order under a mid-commit fault
                        print("note: %s %s: %d of %d runs are hash-seed sensitive (e.g. index %s)" % (
                            prop, campaign.name, len(diff), len(base), diff[:5]))
                        continue
                    if diff or len(base) != len(other):
                        bad += 1
                        print("NON-DETERMINISTIC: %s %s vs %s: %d of %d run digests differ (e.g. index %s)" % (
                            prop, campaign.name, label, len(diff), len(base), diff[:5]))
                print("determinism %s %-16s %d runs x 3 executions: %s" % (prop, campaign.name, len(base), "ok" if not bad else "see above"))
    finally:
        os.environ.pop("VERIF_MAX_INDEX", None)
        os.environ.pop("VERIF_HASHSEED_OFFSET", None)
        invoker.cleanup_scratch()
    return 1 if bad else 0


def regressions(_args):
    bad = 0
    for path in sorted(glob.glob(os.path.join(HERE, "findings", "*.json"))):
        rc = subprocess.call([runner.PYTHON, os.path.join(HERE, "check"), "replay", path], cwd=HERE, stdout=subprocess.DEVNULL)
        status = "fixed (does not reproduce)" if rc == 0 else "REPRODUCES"
        if rc != 0:
            bad += 1
        print("%-70s %s" % (os.path.basename(path), status))
    return 1 if bad else 0


def sensitivity(args):
    import mutants
    return mutants.main(args)


def main(args):
    if not args:
        print(__doc__)
        return 2
    cmd = args[0]
    if cmd == "determinism":
        return determinism(args[1:])
    if cmd == "regressions":
        return regressions(args[1:])
    if cmd == "sensitivity":
        return sensitivity(args[1:])
    print(__doc__)
    return 2
